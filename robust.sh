#!/bin/bash
# robust.sh <seed...> : run every claimed check at the given VERIF_SEED values, summarise alarms.
# Workers use seed+i with stride 16: pick seeds far apart (1 1000001 2000001), neighbouring values revisit the same runs.
for s in "$@"; do
  for p in $(jq -r '.checks[].property_id' MANIFEST.json); do
    out=$(VERIF_SEED=$s ./check $p quick 2>&1); rc=$?
    echo "seed=$s $p rc=$rc $(echo "$out" | grep -c '^VIOLATION') violations"
    echo "$out" | grep -B1 '^VIOLATION' | grep -v '^VIOLATION\|^--' | cut -c1-260
    [ $rc -eq 2 ] && echo "$out" | tail -5 | cut -c1-300
  done
done
