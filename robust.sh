#!/bin/bash
# robust.sh <seed...> : run every claimed check at the given VERIF_SEED values, summarise alarms
for s in "$@"; do
  for p in $(jq -r '.checks[].property_id' MANIFEST.json); do
    out=$(VERIF_SEED=$s ./check $p quick 2>&1); rc=$?
    echo "seed=$s $p rc=$rc $(echo "$out" | grep -c '^VIOLATION') violations"
    echo "$out" | grep -B1 '^VIOLATION' | grep -v '^VIOLATION\|^--' | cut -c1-260
  done
done
