module ksim

go 1.26

require (
	github.com/davecgh/go-spew v1.1.1
	github.com/evanphx/json-patch v4.12.0+incompatible
	github.com/onsi/ginkgo v1.16.5
	github.com/onsi/gomega v1.24.1
	github.com/openkruise/kruise-api v1.3.0
	github.com/spf13/pflag v1.0.5
	github.com/stretchr/testify v1.8.2
	github.com/yuin/gopher-lua v0.0.0-20220504180219-658193537a64
	golang.org/x/time v0.3.0
	gopkg.in/yaml.v2 v2.4.0
	k8s.io/api v0.26.3
	k8s.io/apiextensions-apiserver v0.26.3
	k8s.io/apimachinery v0.26.3
	k8s.io/apiserver v0.26.3
	k8s.io/client-go v0.26.3
	k8s.io/component-base v0.26.3
	k8s.io/klog/v2 v2.100.1
	k8s.io/utils v0.0.0-20221128185143-99ec85e7a448
	layeh.com/gopher-json v0.0.0-20201124131017-552bb3c4c3bf
	sigs.k8s.io/controller-runtime v0.14.6
	sigs.k8s.io/gateway-api v0.7.1
	sigs.k8s.io/yaml v1.3.0
)

require (
	github.com/beorn7/perks v1.0.1 // indirect
	github.com/blang/semver/v4 v4.0.0 // indirect
	github.com/cespare/xxhash/v2 v2.1.2 // indirect
	github.com/emicklei/go-restful/v3 v3.9.0 // indirect
	github.com/evanphx/json-patch/v5 v5.6.0 // indirect
	github.com/fsnotify/fsnotify v1.6.0 // indirect
	github.com/go-logr/zapr v1.2.3 // indirect
	github.com/go-openapi/jsonpointer v0.19.5 // indirect
	github.com/go-openapi/jsonreference v0.20.0 // indirect
	github.com/go-openapi/swag v0.19.14 // indirect
	github.com/gogo/protobuf v1.3.2 // indirect
	github.com/golang/groupcache v0.0.0-20210331224755-41bb18bfe9da // indirect
	github.com/golang/protobuf v1.5.2 // indirect
	github.com/google/gnostic v0.5.7-v3refs // indirect
	github.com/google/go-cmp v0.5.9 // indirect
	github.com/google/gofuzz v1.1.0 // indirect
	github.com/google/uuid v1.1.2 // indirect
	github.com/imdario/mergo v0.3.12 // indirect
	github.com/josharian/intern v1.0.0 // indirect
	github.com/json-iterator/go v1.1.12 // indirect
	github.com/mailru/easyjson v0.7.6 // indirect
	github.com/matttproud/golang_protobuf_extensions v1.0.2 // indirect
	github.com/modern-go/concurrent v0.0.0-20180306012644-bacd9c7ef1dd // indirect
	github.com/modern-go/reflect2 v1.0.2 // indirect
	github.com/munnerz/goautoneg v0.0.0-20191010083416-a7dc8b61c822 // indirect
	github.com/nxadm/tail v1.4.8 // indirect
	github.com/pkg/errors v0.9.1 // indirect
	github.com/pmezard/go-difflib v1.0.0 // indirect
	github.com/prometheus/client_golang v1.14.0 // indirect
	github.com/prometheus/client_model v0.3.0 // indirect
	github.com/prometheus/common v0.37.0 // indirect
	github.com/prometheus/procfs v0.8.0 // indirect
	go.uber.org/atomic v1.7.0 // indirect
	go.uber.org/multierr v1.6.0 // indirect
	go.uber.org/zap v1.24.0 // indirect
	golang.org/x/net v0.7.0 // indirect
	golang.org/x/oauth2 v0.0.0-20220223155221-ee480838109b // indirect
	golang.org/x/sys v0.5.0 // indirect
	golang.org/x/term v0.5.0 // indirect
	golang.org/x/text v0.7.0 // indirect
	gomodules.xyz/jsonpatch/v2 v2.2.0 // indirect
	google.golang.org/appengine v1.6.7 // indirect
	google.golang.org/protobuf v1.28.1 // indirect
	gopkg.in/inf.v0 v0.9.1 // indirect
	gopkg.in/tomb.v1 v1.0.0-20141024135613-dd632973f1e7 // indirect
	gopkg.in/yaml.v3 v3.0.1 // indirect
	k8s.io/kube-openapi v0.0.0-20221012153701-172d655c2280 // indirect
	sigs.k8s.io/json v0.0.0-20220713155537-f223a00ba0e2 // indirect
	sigs.k8s.io/structured-merge-diff/v4 v4.2.3 // indirect
)

require (
	github.com/go-logr/logr v1.2.3
	github.com/openkruise/rollouts v0.0.0
)

replace github.com/openkruise/rollouts => /tmp/ev/C18a
