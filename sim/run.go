package ksim

import (
	"encoding/json"
	"fmt"
	appsv1 "k8s.io/api/apps/v1"
	corev1 "k8s.io/api/core/v1"
	mrand "math/rand"
	"os"
	"runtime/debug"
	"sigs.k8s.io/controller-runtime/pkg/client"
	"strings"
	"testing"
	"testing/synctest"
	"time"

	kruisev1alpha1 "github.com/openkruise/kruise-api/apps/v1alpha1"
	kruisev1beta1 "github.com/openkruise/kruise-api/apps/v1beta1"
	admregv1 "k8s.io/api/admissionregistration/v1"
	"k8s.io/apimachinery/pkg/api/meta"
	"k8s.io/apimachinery/pkg/runtime"
	utilruntime "k8s.io/apimachinery/pkg/util/runtime"
	clientgoscheme "k8s.io/client-go/kubernetes/scheme"
	gatewayv1beta1 "sigs.k8s.io/gateway-api/apis/v1beta1"

	rolloutapi "github.com/openkruise/rollouts/api"
	"github.com/openkruise/rollouts/api/v1beta1"
	rutil "github.com/openkruise/rollouts/pkg/util"
)

var simScheme = func() *runtime.Scheme {
	sc := runtime.NewScheme()
	utilruntime.Must(clientgoscheme.AddToScheme(sc))
	utilruntime.Must(kruisev1alpha1.AddToScheme(sc))
	utilruntime.Must(kruisev1beta1.AddToScheme(sc))
	utilruntime.Must(rolloutapi.AddToScheme(sc))
	utilruntime.Must(gatewayv1beta1.AddToScheme(sc))
	utilruntime.Must(admregv1.AddToScheme(sc))
	return sc
}()

// RunResult is what one simulated run reports.
type RunResult struct {
	Seed       int64             `json:"seed"`
	Scenario   *Scenario         `json:"scenario"`
	Config     Config            `json:"-"`
	Steps      int               `json:"steps"`
	SimSeconds float64           `json:"simSeconds"`
	EndReason  string            `json:"endReason"`
	Writes     int               `json:"writes"`
	Calls      int               `json:"calls"`
	Stats      map[string]int    `json:"stats"`
	Probes     map[string]int    `json:"probes"`
	Violations []Violation       `json:"violations,omitempty"`
	Trace      []string          `json:"trace,omitempty"`
	TraceHash  string            `json:"traceHash"`
	LogHash    string            `json:"logHash"`
	Final      string            `json:"final"`
	HarnessErr string            `json:"harness_error,omitempty"`
	Digest     string            `json:"digest"`
	Digests    map[string]string `json:"-"`
	NScenarios int               `json:"nScenarios,omitempty"`
	Choices    []uint32          `json:"-"`
	LogLines   []string          `json:"-"`
}

type RunOpts struct {
	KeepLog  bool
	Property string // selects scenario weights
	Mutate   func(sc *Scenario, cfg *Config)
	Forced   map[int]string // systematic fault placement: eligible call index -> fault kind
	Only     int            // C19: 0 = all rollouts of the scenario set, i>0 = only the i-th (solo reference run)
}

// RunOne executes one complete simulated run inside a synctest bubble.
func RunOne(t *testing.T, tape *Tape, seed int64, opts RunOpts) *RunResult {
	var res *RunResult
	func() {
		defer func() {
			if r := recover(); r != nil {
				// the only panic synctest itself raises is "deadlock: all goroutines in bubble are blocked"
				if res == nil {
					panic(r)
				}
				res.EndReason += fmt.Sprintf("+bubble-panic(%v)", r)
			}
		}()
		synctest.Test(t, func(t *testing.T) {
			res = runInBubble(tape, seed, opts)
		})
	}()
	return res
}

func runInBubble(tape *Tape, seed int64, opts RunOpts) *RunResult {
	// client-go's retry/backoff jitter draws from the global math/rand source: pin it per run
	mrand.Seed(1)
	// Simulated time is discrete: without this offset reconciles often run at an instant that is exactly a whole second,
	// i.e. exactly equal to a timestamp the API server truncated to seconds - something a real clock practically never
	// does - and "deadline.Before(now)" tests on such timestamps then fail with a zero requeue (a lost wake-up that no
	// real deployment can see).  137us keeps every later instant off the second boundaries.
	time.Sleep(137 * time.Microsecond)
	s := &Sim{T: tape, Stats: map[string]int{}, Probes: map[string]int{}}
	s.start = time.Now()
	sc, cfg := DrawScenario(tape, opts.Property)
	scs := []*Scenario{sc}
	if opts.Property == "C19" {
		// two or three rollouts in one process: same names in another namespace, another workload in the same namespace
		n := 2 + tape.Next(2)
		for i := 1; i < n; i++ {
			o, _ := DrawScenario(tape, opts.Property)
			if i == 1 {
				o.NS, o.Name = "ns2", "web" // same names (also the stable Service name), other namespace
			} else {
				o.NS, o.Name = "ns1", "api"
			}
			scs = append(scs, o)
		}
		for _, x := range scs {
			x.Events = nil // plain releases: each rollout's terminal state is then independent of timing
		}
		if opts.Only > 0 {
			if opts.Only > len(scs) {
				opts.Only = len(scs)
			}
			scs = scs[opts.Only-1 : opts.Only]
			sc = scs[0]
		}
	}
	if opts.Mutate != nil {
		opts.Mutate(sc, &cfg)
	}
	if opts.Forced != nil {
		cfg.Forced = opts.Forced
	}
	s.Cfg = cfg
	s.Store = NewStore(simScheme, s.Now)
	s.mapper = s.restMapper()
	s.EvLog = newHashLog(opts.KeepLog)
	s.Store.OnCommit = append(s.Store.OnCommit, s.onCommit)
	NewEnv(s)
	s.Env.NativeHashCompat = sc.HashCompat
	for _, x := range scs {
		installOracles(s, x)
	}

	// phase A: pre-existing cluster converges (no controller process, no delays)
	s.Env.Fast = true
	for i, x := range scs {
		s.setupCluster(x, i == 0)
	}
	saved := s.Cfg
	s.Cfg.MaxSteps = 100000
	s.Cfg.MaxSimTime = time.Hour
	s.faultsOff = true
	s.Run()
	if s.EndReason != "quiescent" {
		panic("ksim: setup did not converge: " + s.EndReason)
	}
	s.ended = false
	s.Cfg = saved
	s.Steps = 0
	s.faultsOff = false
	s.Env.Fast = false
	if sc.V2Fails {
		s.Env.failVersion = "v2"
	}

	// phase B: the controller process starts, the user acts
	s.start = time.Now()
	p := NewProcess(s)
	p.Start()
	for _, x := range scs {
		NewUser(s, x)
	}
	s.Run()

	for _, o := range s.Oracles {
		s.guardOracle(o.Name()+".OnEnd", func() { o.OnEnd(s) })
	}
	if d := os.Getenv("KSIM_DUMP"); d != "" {
		for _, k := range s.Store.keys {
			if strings.Contains(d, k.GK.Kind) {
				fmt.Printf("DUMP %s %s\n", k, string(s.Store.encode(s.Store.objs[k])))
			}
		}
	}
	digests := map[string]string{}
	for _, x := range scs {
		digests[x.NS+"/"+x.Name] = s.finalDigest(x)
	}
	res := &RunResult{Seed: seed, Scenario: sc, Digests: digests, NScenarios: len(scs), Config: cfg, Steps: s.Steps, SimSeconds: s.Elapsed().Seconds(), EndReason: s.EndReason,
		Writes: len(s.Store.Log), Calls: s.callIdx, Stats: s.Stats, Probes: s.Probes, Violations: s.Violations, Trace: s.Trace,
		LogHash: s.EvLog.Sum(), Choices: tape.Rec, LogLines: s.EvLog.Lines, Final: s.finalSummary(sc), Digest: s.finalDigest(sc), HarnessErr: s.HarnessErr}
	th := newHashLog(false)
	for _, l := range s.Trace {
		th.add(l)
	}
	res.TraceHash = th.Sum()
	return res
}

var _ meta.RESTMapper

// onCommit: determinism log + oracles + abstract trace.
func (s *Sim) onCommit(w *Write) {
	if s.EvLog != nil {
		body := ""
		if w.New != nil {
			// resourceVersion is a global counter: order of commuting pod patches may differ, so it is not logged
			body = fmt.Sprintf("g%d", w.New.GetGeneration())
		}
		if w.Commut {
			s.EvLog.addCommutative("W|" + w.Actor + "|" + w.Verb + "|" + w.Key.String() + "|" + body)
		} else {
			s.EvLog.add(fmt.Sprintf("W|%d|%s|%s|%s|%s|%s", w.Seq, w.Actor, w.Verb, w.Key, body, w.Time.Format("15:04:05.000")))
		}
	}
	nv := len(s.Violations)
	for _, o := range s.Oracles {
		s.guardOracle(o.Name()+".OnWrite", func() { o.OnWrite(s, w) })
	}
	if s.EvLog != nil && s.EvLog.keep {
		if w.Key.GK == gkRollout || w.Key.GK == gkBR {
			s.EvLog.Lines = append(s.EvLog.Lines, "  # "+s.abstractState())
		} else if w.Key.GK == gkService && w.New != nil {
			s.EvLog.Lines = append(s.EvLog.Lines, "  # svc selector="+dumpJSON(w.New.(*corev1.Service).Spec.Selector))
		} else if w.Key.GK == gkRS && w.New != nil {
			rs := w.New.(*appsv1.ReplicaSet)
			s.EvLog.Lines = append(s.EvLog.Lines, fmt.Sprintf("  # rs replicas=%d minReady=%d status=%s", *rs.Spec.Replicas, rs.Spec.MinReadySeconds, statusJSON(rs)))
		} else if isWorkloadGK(w.Key) && w.New != nil {
			e, n, _ := s.exposure(w.New)
			s.EvLog.Lines = append(s.EvLog.Lines, fmt.Sprintf("  # %s exposure=%d/%d gen=%d spec=%s strategy=%s ctl=%v status=%s", w.Key, e, n, w.New.GetGeneration(), specBrief(w.New), w.New.GetAnnotations()["rollouts.kruise.io/deployment-strategy"], controlledByUID(w.New), statusJSON(w.New)))
		}
		for _, v := range s.Violations[nv:] {
			s.EvLog.Lines = append(s.EvLog.Lines, "  !! "+v.Property+" "+v.Sig+": "+firstLine(v.Detail))
		}
	}
	s.traceWrite(w)
}

// traceWrite maintains the abstract trace: (phase, reason, step, sub-state, finalising step, BR phase/batch/state) with stutter removed.
func (s *Sim) traceWrite(w *Write) {
	if w.Key.GK != gkRollout && w.Key.GK != gkBR {
		return
	}
	line := s.abstractState()
	if n := len(s.Trace); n > 0 && s.Trace[n-1] == line {
		return
	}
	if len(s.Trace) < 400 {
		s.Trace = append(s.Trace, line)
	}
}

func (s *Sim) abstractState() string {
	var sb strings.Builder
	for _, k := range s.Store.Keys(gkRollout) {
		ro := s.Store.Peek(k).(*v1beta1.Rollout)
		reason := ""
		if c := rutil.GetRolloutCondition(ro.Status, v1beta1.RolloutConditionProgressing); c != nil {
			reason = c.Reason
		}
		fin := ""
		stepState := ""
		idx := int32(0)
		if sub := ro.Status.GetSubStatus(); sub != nil {
			fin = string(sub.FinalisingStep)
			stepState = string(sub.CurrentStepState)
			idx = sub.CurrentStepIndex
		}
		del := ""
		if ro.DeletionTimestamp != nil {
			del = "!del"
		}
		fmt.Fprintf(&sb, "R[%s %s/%s %d:%s %s%s]", k.Name, ro.Status.Phase, reason, idx, stepState, fin, del)
	}
	for _, k := range s.Store.Keys(gkBR) {
		br := s.Store.Peek(k).(*v1beta1.BatchRelease)
		bp := "nil"
		if br.Spec.ReleasePlan.BatchPartition != nil {
			bp = fmt.Sprint(*br.Spec.ReleasePlan.BatchPartition)
		}
		fmt.Fprintf(&sb, "B[%s %s %d:%s bp=%s]", k.Name, br.Status.Phase, br.Status.CanaryStatus.CurrentBatch, br.Status.CanaryStatus.CurrentBatchState, bp)
	}
	return sb.String()
}

// guardOracle: a panic inside an oracle is a harness fault; it must never look like a panic of the code under test.
func (s *Sim) guardOracle(where string, f func()) {
	defer func() {
		if r := recover(); r != nil {
			if _, isPoison := r.(poisonT); isPoison {
				panic(r)
			}
			if s.HarnessErr == "" {
				s.HarnessErr = fmt.Sprintf("oracle %s panicked: %v\n%s", where, r, debug.Stack())
			}
		}
	}()
	f()
}

func (s *Sim) finalSummary(sc *Scenario) string {
	return s.abstractState()
}

func specBrief(o client.Object) string {
	if d, ok := o.(*appsv1.Deployment); ok {
		ms, mu := "", ""
		if d.Spec.Strategy.RollingUpdate != nil {
			if d.Spec.Strategy.RollingUpdate.MaxSurge != nil {
				ms = d.Spec.Strategy.RollingUpdate.MaxSurge.String()
			}
			if d.Spec.Strategy.RollingUpdate.MaxUnavailable != nil {
				mu = d.Spec.Strategy.RollingUpdate.MaxUnavailable.String()
			}
		}
		return fmt.Sprintf("{paused:%v minReady:%d surge:%s unavail:%s}", d.Spec.Paused, d.Spec.MinReadySeconds, ms, mu)
	}
	return ""
}

func statusJSON(o interface{}) string {
	b, _ := json.Marshal(o)
	m := map[string]json.RawMessage{}
	_ = json.Unmarshal(b, &m)
	return string(m["status"])
}

// finalDigest: the abstract terminal cluster state used for fault-free vs. faulty comparison (C06):
// no timestamps, UIDs, resourceVersions or generated names.
func (s *Sim) finalDigest(sc *Scenario) string {
	var sb strings.Builder
	for _, k := range s.Store.keys {
		o := s.Store.objs[k]
		if !sc.owns(k) {
			continue
		}
		switch k.GK {
		case gkRollout:
			ro := o.(*v1beta1.Rollout)
			succ := "-"
			if c := rutil.GetRolloutCondition(ro.Status, v1beta1.RolloutConditionSucceeded); c != nil {
				succ = string(c.Status)
			}
			fmt.Fprintf(&sb, "RO[%s %s succ=%s step=%d:%s]", ro.Status.Phase, progressingReason(ro), succ, ro.Status.CurrentStepIndex, ro.Status.CurrentStepState)
		case gkBR:
			fmt.Fprintf(&sb, "BR[%s]", k.Name)
		case gkService:
			fmt.Fprintf(&sb, "SVC[%s %s]", k.Name, dumpJSON(o.(*corev1.Service).Spec.Selector))
		case gkIngress:
			fmt.Fprintf(&sb, "ING[%s]", k.Name)
		case gkDeployment:
			d := o.(*appsv1.Deployment)
			name := k.Name
			if d.Labels[canaryDepLabel] != "" {
				name = "<canary>"
			}
			fmt.Fprintf(&sb, "DEP[%s paused=%v n=%d %s ctl=%v inprog=%v strat=%v]", name, d.Spec.Paused, *d.Spec.Replicas, d.Spec.Strategy.Type, controlledByUID(d) != "", d.Annotations[inProgressAnno] != "", d.Annotations["rollouts.kruise.io/deployment-strategy"] != "")
		case gkCloneSet:
			c := o.(*kruisev1alpha1.CloneSet)
			p := "nil"
			if c.Spec.UpdateStrategy.Partition != nil {
				p = c.Spec.UpdateStrategy.Partition.String()
			}
			fmt.Fprintf(&sb, "CS[%s part=%s paused=%v n=%d ctl=%v inprog=%v]", k.Name, p, c.Spec.UpdateStrategy.Paused, *c.Spec.Replicas, controlledByUID(c) != "", c.Annotations[inProgressAnno] != "")
		case gkHTTPRoute:
			fmt.Fprintf(&sb, "HR[%s %v]", k.Name, decodeHTTPRoute(o.(*gatewayv1beta1.HTTPRoute), sc.Name+"-svc", sc.Name+"-svc-canary"))
		}
	}
	imgs := map[string]int{}
	for _, k := range s.Store.Keys(gkPod) {
		p := s.Store.Peek(k).(*corev1.Pod)
		if !sc.owns(k) {
			continue
		}
		if p.DeletionTimestamp == nil && len(p.Spec.Containers) > 0 {
			imgs[p.Spec.Containers[0].Image]++
		}
	}
	fmt.Fprintf(&sb, "PODS%s", dumpJSON(imgs))
	return sb.String()
}
