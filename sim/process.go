package ksim

import (
	"context"
	"encoding/json"
	"fmt"
	"net/http"
	"os"
	"strings"
	"time"

	jsonpatch "github.com/evanphx/json-patch"
	"github.com/go-logr/logr"
	admissionv1 "k8s.io/api/admission/v1"
	apierrors "k8s.io/apimachinery/pkg/api/errors"
	"k8s.io/apimachinery/pkg/api/meta"
	metav1 "k8s.io/apimachinery/pkg/apis/meta/v1"
	"k8s.io/apimachinery/pkg/apis/meta/v1/unstructured"
	"k8s.io/apimachinery/pkg/runtime"
	"k8s.io/apimachinery/pkg/runtime/schema"
	"k8s.io/apimachinery/pkg/types"
	appslisters "k8s.io/client-go/listers/apps/v1"
	toolscache "k8s.io/client-go/tools/cache"
	"k8s.io/client-go/tools/record"
	"k8s.io/client-go/util/workqueue"
	"sigs.k8s.io/controller-runtime/pkg/cache"
	"sigs.k8s.io/controller-runtime/pkg/client"
	cfgv1alpha1 "sigs.k8s.io/controller-runtime/pkg/config/v1alpha1"
	"sigs.k8s.io/controller-runtime/pkg/event"
	"sigs.k8s.io/controller-runtime/pkg/handler"
	"sigs.k8s.io/controller-runtime/pkg/manager"
	"sigs.k8s.io/controller-runtime/pkg/predicate"
	"sigs.k8s.io/controller-runtime/pkg/reconcile"
	"sigs.k8s.io/controller-runtime/pkg/runtime/inject"
	"sigs.k8s.io/controller-runtime/pkg/source"
	"sigs.k8s.io/controller-runtime/pkg/webhook/admission"

	"github.com/openkruise/rollouts/pkg/controller/batchrelease"
	"github.com/openkruise/rollouts/pkg/controller/deployment"
	"github.com/openkruise/rollouts/pkg/controller/rollout"
	"github.com/openkruise/rollouts/pkg/controller/trafficrouting"
	expectations "github.com/openkruise/rollouts/pkg/util/expectation"
	"github.com/openkruise/rollouts/pkg/util/grace"
	"github.com/openkruise/rollouts/pkg/webhook/rollout/validating"
	"github.com/openkruise/rollouts/pkg/webhook/workload/mutating"
)

// ---------------------------------------------------------------------------
// simulated work queue (controller-runtime / client-go semantics)

type simQueue struct {
	p          *Process
	gen        int
	order      []reconcile.Request
	queued     map[reconcile.Request]bool
	processing map[reconcile.Request]bool
	dirty      map[reconcile.Request]bool
	failures   map[reconcile.Request]int
	armed      int // number of armed AddAfter timers (for quiescence bookkeeping)
}

var _ workqueue.RateLimitingInterface = &simQueue{}

func newSimQueue(p *Process) *simQueue {
	return &simQueue{p: p, gen: p.gen, queued: map[reconcile.Request]bool{}, processing: map[reconcile.Request]bool{},
		dirty: map[reconcile.Request]bool{}, failures: map[reconcile.Request]int{}}
}

func (q *simQueue) Add(item interface{}) {
	r := item.(reconcile.Request)
	if q.p.down || q.gen != q.p.gen {
		return
	}
	if q.processing[r] {
		q.dirty[r] = true
		return
	}
	if q.queued[r] {
		return
	}
	q.queued[r] = true
	q.order = append(q.order, r)
}
func (q *simQueue) AddAfter(item interface{}, d time.Duration) {
	if d <= 0 {
		q.Add(item)
		return
	}
	q.armed++
	gen := q.gen
	// a real delaying queue never fires early and the worker picks the item up strictly later:
	// model that latency as 1ms so that "now == deadline" coincidences of discrete time cannot occur.
	q.p.sim.After(d+time.Millisecond, func() {
		q.armed--
		if gen == q.p.gen && !q.p.down {
			q.Add(item)
		}
	})
}
func (q *simQueue) AddRateLimited(item interface{}) {
	r := item.(reconcile.Request)
	n := q.failures[r]
	q.failures[r] = n + 1
	d := 5 * time.Millisecond
	for i := 0; i < n && d < 1000*time.Second; i++ {
		d *= 2
	}
	if d > 1000*time.Second {
		d = 1000 * time.Second
	}
	q.AddAfter(item, d)
}
func (q *simQueue) Forget(item interface{})          { delete(q.failures, item.(reconcile.Request)) }
func (q *simQueue) NumRequeues(item interface{}) int { return q.failures[item.(reconcile.Request)] }
func (q *simQueue) Len() int                         { return len(q.order) }
func (q *simQueue) Get() (interface{}, bool)         { panic("ksim: queue.Get is driven by the scheduler") }
func (q *simQueue) Done(item interface{})            {}
func (q *simQueue) ShutDown()                        {}
func (q *simQueue) ShutDownWithDrain()               {}
func (q *simQueue) ShuttingDown() bool               { return false }

func (q *simQueue) take(r reconcile.Request) {
	delete(q.queued, r)
	for i := range q.order {
		if q.order[i] == r {
			q.order = append(q.order[:i], q.order[i+1:]...)
			break
		}
	}
	q.processing[r] = true
}

// ---------------------------------------------------------------------------
// controller captured from the repository's own setup code

type capturedWatch struct {
	typ   client.Object
	gk    schema.GroupKind
	h     handler.EventHandler
	preds []predicate.Predicate
}

type Ctrl struct {
	Name    string
	Actor   string
	rec     reconcile.Reconciler
	watches []*capturedWatch
	q       *simQueue
	active  int
	max     int
	mgr     *fakeMgr
}

type nopRecorder struct{}

func (nopRecorder) Event(runtime.Object, string, string, string)                  {}
func (nopRecorder) Eventf(runtime.Object, string, string, string, ...interface{}) {}
func (nopRecorder) AnnotatedEventf(runtime.Object, map[string]string, string, string, string, ...interface{}) {
}

var _ record.EventRecorder = nopRecorder{}

type cacheReader struct {
	cache.Informers
	h *Handle
}

func (c *cacheReader) Get(ctx context.Context, key client.ObjectKey, obj client.Object, opts ...client.GetOption) error {
	return c.h.Get(ctx, key, obj, opts...)
}
func (c *cacheReader) List(ctx context.Context, list client.ObjectList, opts ...client.ListOption) error {
	return c.h.List(ctx, list, opts...)
}

// fakeMgr is handed to the repository's SetupWithManager/Add functions.  One per controller so that
// the client it hands out is tagged with the controller's actor name.
type fakeMgr struct {
	manager.Manager
	p      *Process
	ctrl   *Ctrl
	client *Handle
	cache  *cacheReader
	cur    *capturedWatch
}

func (m *fakeMgr) GetClient() client.Client                        { return m.client }
func (m *fakeMgr) GetScheme() *runtime.Scheme                      { return m.p.sim.Store.Scheme }
func (m *fakeMgr) GetCache() cache.Cache                           { return m.cache }
func (m *fakeMgr) GetAPIReader() client.Reader                     { return m.client }
func (m *fakeMgr) GetEventRecorderFor(string) record.EventRecorder { return nopRecorder{} }
func (m *fakeMgr) GetLogger() logr.Logger                          { return logr.Discard() }
func (m *fakeMgr) GetRESTMapper() meta.RESTMapper                  { return m.p.sim.mapper }
func (m *fakeMgr) GetControllerOptions() cfgv1alpha1.ControllerConfigurationSpec {
	return cfgv1alpha1.ControllerConfigurationSpec{}
}
func (m *fakeMgr) Add(r manager.Runnable) error {
	rec, ok := r.(reconcile.Reconciler)
	if !ok {
		return fmt.Errorf("ksim: runnable %T is not a reconciler", r)
	}
	m.ctrl.rec = rec
	return nil
}

func (m *fakeMgr) SetFields(i interface{}) error {
	if _, err := inject.SchemeInto(m.GetScheme(), i); err != nil {
		return err
	}
	if _, err := inject.MapperInto(m.GetRESTMapper(), i); err != nil {
		return err
	}
	if _, err := inject.ClientInto(m.client, i); err != nil {
		return err
	}
	if _, err := inject.InjectorInto(m.SetFields, i); err != nil {
		return err
	}
	switch x := i.(type) {
	case *source.Kind:
		gvk, err := m.p.sim.Store.gvkOf(x.Type)
		if err != nil {
			return err
		}
		m.cur = &capturedWatch{typ: x.Type, gk: gvk.GroupKind()}
		m.ctrl.watches = append(m.ctrl.watches, m.cur)
	case handler.EventHandler:
		if m.cur != nil && m.cur.h == nil {
			m.cur.h = x
		}
	case predicate.Predicate:
		if m.cur != nil {
			m.cur.preds = append(m.cur.preds, x)
		}
	}
	return nil
}

// ---------------------------------------------------------------------------
// the process

type pendEv struct {
	ev  Event
	due time.Time
}

type Process struct {
	sim   *Sim
	gen   int
	down  bool
	cache *snapMap
	ctrls []*Ctrl

	pend     map[ObjKey][]pendEv
	pendKeys []ObjKey

	dIndexer  toolscache.Indexer
	rsIndexer toolscache.Indexer

	whWorkload *mutating.WorkloadHandler
	whUnified  *mutating.UnifiedWorkloadHandler
	whRollout  *validating.RolloutCreateUpdateHandler

	Starts int
	panics int
}

func NewProcess(s *Sim) *Process {
	p := &Process{sim: s, down: true}
	s.Proc = p
	s.Store.Watchers = append(s.Store.Watchers, p.onEvent)
	s.Store.Admission = p.admit
	return p
}

func (p *Process) newCtrl(name, actor string) *Ctrl {
	c := &Ctrl{Name: name, Actor: actor, max: 3}
	h := p.sim.NewHandle(actor, p, true)
	rd := p.sim.NewHandle(actor, p, false)
	c.mgr = &fakeMgr{p: p, ctrl: c, client: h, cache: &cacheReader{h: rd}}
	c.q = newSimQueue(p)
	p.ctrls = append(p.ctrls, c)
	return c
}

// Start (re)builds the process from nothing but the API store: the repository's own setup
// functions are run against the fake manager, the cache is filled by an initial list and a
// synthetic Create event is dispatched for every object (what informers do on start).
func (p *Process) Start() {
	s := p.sim
	p.gen++
	p.down = false
	p.Starts++
	p.cache = newSnapMap()
	p.ctrls = nil
	p.pend = map[ObjKey][]pendEv{}
	p.pendKeys = nil
	p.dIndexer = toolscache.NewIndexer(toolscache.MetaNamespaceKeyFunc, toolscache.Indexers{toolscache.NamespaceIndex: toolscache.MetaNamespaceIndexFunc})
	p.rsIndexer = toolscache.NewIndexer(toolscache.MetaNamespaceKeyFunc, toolscache.Indexers{toolscache.NamespaceIndex: toolscache.MetaNamespaceIndexFunc})

	// in-memory tables of the repository die with the process
	grace.ResetExpectations()
	expectations.ResourceExpectations = expectations.NewResourceExpectations()

	must := func(err error) {
		if err != nil {
			panic(fmt.Sprintf("ksim: controller setup failed: %v", err))
		}
	}
	c := p.newCtrl("rollout", "rollout-ctrl")
	must((&rollout.RolloutReconciler{Client: c.mgr.client, Scheme: s.Store.Scheme, Recorder: nopRecorder{}}).SetupWithManager(c.mgr))
	c = p.newCtrl("trafficrouting", "tr-ctrl")
	must((&trafficrouting.TrafficRoutingReconciler{Client: c.mgr.client, Scheme: s.Store.Scheme, Recorder: nopRecorder{}}).SetupWithManager(c.mgr))
	c = p.newCtrl("batchrelease", "br-ctrl")
	must(batchrelease.Add(c.mgr))
	c = p.newCtrl("deployment", "deploy-ctrl")
	kh := s.NewHandle("deploy-ctrl", p, true)
	kh.noYield = true // client-go's fake clientset runs reactors under its own mutex: parking there would block other tasks on a non-durable lock
	kube := newKubeClientset(kh)
	must(deployment.VerifAdd(c.mgr, deployment.VerifNewReconciler(c.mgr.client, kube,
		appslisters.NewDeploymentLister(p.dIndexer), appslisters.NewReplicaSetLister(p.rsIndexer), nopRecorder{})))

	wh := s.NewHandle("webhook", p, false)
	dec, _ := admission.NewDecoder(s.Store.Scheme)
	p.whWorkload = &mutating.WorkloadHandler{}
	_ = p.whWorkload.InjectClient(wh)
	_ = p.whWorkload.InjectDecoder(dec)
	p.whUnified = &mutating.UnifiedWorkloadHandler{}
	_ = p.whUnified.InjectClient(wh)
	_ = p.whUnified.InjectDecoder(dec)
	p.whRollout = &validating.RolloutCreateUpdateHandler{}
	_ = p.whRollout.InjectClient(wh)
	_ = p.whRollout.InjectDecoder(dec)

	// initial list + synthetic create events
	for _, k := range append([]ObjKey(nil), s.Store.keys...) {
		o := s.Store.objs[k]
		gvk, _ := s.Store.gvkOf(o)
		p.apply(Event{Type: EvAdded, Key: k, GVK: gvk, New: o})
	}
	s.stat("proc.start")
}

func (p *Process) onEvent(ev Event) {
	if p.down {
		return
	}
	s := p.sim
	if s.Cfg.CacheLagMaxMs <= 0 {
		p.apply(ev)
		return
	}
	var lag time.Duration
	if ev.Commut {
		// no draw: the order in which these events arrive is not defined
		lag = time.Duration(s.Cfg.CacheLagMaxMs) * time.Millisecond
	} else {
		lag = time.Duration(s.T.Next(s.Cfg.CacheLagMaxMs+1)) * time.Millisecond
	}
	if _, ok := p.pend[ev.Key]; !ok {
		p.pendKeys = insertKeySorted(p.pendKeys, ev.Key)
	}
	due := s.Now().Add(lag)
	if q := p.pend[ev.Key]; len(q) > 0 && q[len(q)-1].due.After(due) {
		due = q[len(q)-1].due
	}
	p.pend[ev.Key] = append(p.pend[ev.Key], pendEv{ev: ev, due: due})
	if lag > 0 {
		s.After(lag, func() {})
	}
}

func insertKeySorted(keys []ObjKey, k ObjKey) []ObjKey {
	i := 0
	for i < len(keys) && keyLess(keys[i], k) {
		i++
	}
	keys = append(keys, ObjKey{})
	copy(keys[i+1:], keys[i:])
	keys[i] = k
	return keys
}

func (p *Process) deliverHead(k ObjKey) {
	q := p.pend[k]
	if len(q) == 0 {
		return
	}
	ev := q[0].ev
	if len(q) == 1 {
		delete(p.pend, k)
		for i := range p.pendKeys {
			if p.pendKeys[i] == k {
				p.pendKeys = append(p.pendKeys[:i], p.pendKeys[i+1:]...)
				break
			}
		}
	} else {
		p.pend[k] = q[1:]
	}
	p.apply(ev)
}

// apply updates the cache (and listers' indexers) and then dispatches through the captured
// predicates and handlers — informer order: cache first, handlers second.
func (p *Process) apply(ev Event) {
	s := p.sim
	switch ev.Type {
	case EvAdded, EvModified:
		p.cache.set(ev.Key, ev.New)
	case EvDeleted:
		p.cache.del(ev.Key)
	}
	if ev.Key.GK.Group == "apps" && (ev.Key.GK.Kind == "Deployment" || ev.Key.GK.Kind == "ReplicaSet") {
		ix := p.dIndexer
		if ev.Key.GK.Kind == "ReplicaSet" {
			ix = p.rsIndexer
		}
		if ev.Type == EvDeleted {
			_ = ix.Delete(ev.Old)
		} else {
			_ = ix.Update(ev.New.DeepCopyObject())
		}
	}
	p.dispatch(ev)
	if s.faultsActive() && s.Cfg.EventDup > 0 && ev.Type != EvDeleted && s.T.Chance(s.Cfg.EventDup) {
		s.stat("fault.event-dup")
		p.dispatch(Event{Type: EvModified, Key: ev.Key, GVK: ev.GVK, Old: ev.New, New: ev.New})
	}
}

func (p *Process) dispatch(ev Event) {
	s := p.sim
	var oldT, newT client.Object
	var oldU, newU *unstructured.Unstructured
	typed := func(o client.Object) client.Object {
		if o == nil {
			return nil
		}
		return o.DeepCopyObject().(client.Object)
	}
	unstr := func(o client.Object) *unstructured.Unstructured {
		if o == nil {
			return nil
		}
		u := &unstructured.Unstructured{}
		_ = s.Store.into(o, u, ev.GVK)
		return u
	}
	for _, c := range p.ctrls {
		for _, w := range c.watches {
			if w.gk != ev.Key.GK || w.h == nil {
				continue
			}
			var o, n client.Object
			if _, isU := w.typ.(*unstructured.Unstructured); isU {
				if oldU == nil && newU == nil {
					oldU, newU = unstr(ev.Old), unstr(ev.New)
				}
				if oldU != nil {
					o = oldU
				}
				if newU != nil {
					n = newU
				}
			} else {
				if oldT == nil && newT == nil {
					oldT, newT = typed(ev.Old), typed(ev.New)
				}
				o, n = oldT, newT
			}
			switch ev.Type {
			case EvAdded:
				e := event.CreateEvent{Object: n}
				ok := true
				for _, pr := range w.preds {
					if !pr.Create(e) {
						ok = false
						break
					}
				}
				if ok {
					w.h.Create(e, c.q)
				}
			case EvModified:
				e := event.UpdateEvent{ObjectOld: o, ObjectNew: n}
				ok := true
				for _, pr := range w.preds {
					if !pr.Update(e) {
						ok = false
						break
					}
				}
				if ok {
					w.h.Update(e, c.q)
				}
			case EvDeleted:
				e := event.DeleteEvent{Object: o}
				ok := true
				for _, pr := range w.preds {
					if !pr.Delete(e) {
						ok = false
						break
					}
				}
				if ok {
					w.h.Delete(e, c.q)
				}
			}
		}
	}
}

// Options offered to the scheduler: start a reconcile, deliver a pending event.
func (p *Process) Options(s *Sim) []option {
	if p.down {
		return nil
	}
	var opts []option
	for _, c := range p.ctrls {
		if c.active >= c.max {
			continue
		}
		for _, r := range c.q.order {
			cc, rr := c, r
			opts = append(opts, option{"rec:" + c.Name + ":" + r.String(), func() { p.startReconcile(cc, rr) }})
		}
	}
	now := s.Now()
	for _, k := range p.pendKeys {
		q := p.pend[k]
		if len(q) > 0 && !q[0].due.After(now) {
			kk := k
			opts = append(opts, option{"deliver:" + k.String(), func() { p.deliverHead(kk) }})
		}
	}
	return opts
}

func (p *Process) startReconcile(c *Ctrl, r reconcile.Request) {
	s := p.sim
	c.q.take(r)
	c.active++
	s.recSeq++
	recID := s.recSeq
	var res reconcile.Result
	var err error
	gen := p.gen
	t := s.Spawn("rec:"+c.Name+":"+r.String(), c.Actor, p, recID, func() {
		res, err = c.rec.Reconcile(context.Background(), r)
	})
	info := &RecInfo{ID: recID, Ctrl: c.Name, Actor: c.Actor, Req: r, Task: t, StartSeq: s.Store.seq}
	t.onDone = func(t *Task) {
		if gen != p.gen {
			return // process incarnation is gone
		}
		c.active--
		delete(c.q.processing, r)
		s.stat("reconcile." + c.Name)
		info.Err = err
		info.Result = res
		info.EndSeq = s.Store.seq
		if t.panicVal != nil {
			info.Panic = fmt.Sprint(t.panicVal)
			s.onPanic(info, t)
			return
		}
		if t.poisoned {
			return
		}
		for _, o := range s.Oracles {
			s.guardOracle(o.Name()+".OnReconcileEnd", func() { o.OnReconcileEnd(s, info) })
		}
		if s.EvLog != nil && s.EvLog.keep {
			s.EvLog.Lines = append(s.EvLog.Lines, fmt.Sprintf("  # rec %s %s -> res=%+v err=%v at %s", c.Name, r, res, err, s.Now().Format("15:04:05.000")))
		}
		switch {
		case err != nil:
			c.q.AddRateLimited(r)
			s.stat("reconcile.error")
		case res.RequeueAfter > 0:
			c.q.Forget(r)
			c.q.AddAfter(r, res.RequeueAfter)
		case res.Requeue:
			c.q.AddRateLimited(r)
		default:
			c.q.Forget(r)
		}
		if c.q.dirty[r] {
			delete(c.q.dirty, r)
			c.q.Add(r)
		}
	}
	s.stepTask(t)
}

// RecInfo describes one finished reconcile for oracles.
type RecInfo struct {
	ID       uint64
	Ctrl     string
	Actor    string
	Req      reconcile.Request
	Task     *Task
	StartSeq uint64
	EndSeq   uint64
	Err      error
	Result   reconcile.Result
	Panic    string
}

// onPanic: production runs without RecoverPanic, so a panic in a reconcile kills the process.
func (s *Sim) onPanic(info *RecInfo, t *Task) {
	s.stat("panic")
	s.Violate("C09", "P1-panic", "panic/"+info.Ctrl+"/"+panicSite(t.panicStk), s.Store.seq,
		"panic in %s reconcile of %s: %s\n%s", info.Ctrl, info.Req, info.Panic, trimStack(t.panicStk))
	s.crash(s.Proc, "panic")
}

// panicSite: the innermost function of the repository on the panicking stack (stable signature).
func panicSite(stack string) string {
	lines := strings.Split(stack, "\n")
	seenPanic := false
	for _, l := range lines {
		if strings.HasPrefix(l, "panic(") {
			seenPanic = true
			continue
		}
		if seenPanic && strings.HasPrefix(l, "github.com/openkruise/rollouts/") {
			l = strings.TrimPrefix(l, "github.com/openkruise/rollouts/")
			if i := strings.LastIndex(l, "("); i > 0 {
				l = l[:i]
			}
			return l
		}
	}
	return "unknown"
}

func firstLine(x string) string {
	for i, c := range x {
		if c == '\n' {
			return x[:i]
		}
	}
	if len(x) > 120 {
		return x[:120]
	}
	return x
}

func trimStack(st string) string {
	if len(st) > 3000 {
		return st[:3000]
	}
	return st
}

// crash kills the process: every task of it is poisoned, queues, caches and timers are dropped,
// in-memory tables are reset on restart.  Only the API store survives.
func (s *Sim) crash(p *Process, why string) {
	if p == nil || p.down {
		return
	}
	p.down = true
	p.gen++
	s.stat("proc.crash." + why)
	s.lastFaultAt = s.Steps
	if s.EvLog != nil {
		s.EvLog.add("CRASH|" + why)
	}
	for _, t := range s.tasks {
		if t.Proc == p {
			t.poisoned = true
		}
	}
	s.pendingReap = true
	for _, c := range p.ctrls {
		c.q.order = nil
	}
	p.pend = map[ObjKey][]pendEv{}
	p.pendKeys = nil
	delay := time.Duration(s.T.Next(5000)) * time.Millisecond
	if why == "panic" {
		// CrashLoopBackOff of the kubelet: 10s, 20s, 40s ... capped at 5 minutes
		delay = 10 * time.Second << uint(min(p.panics, 5))
		if delay > 300*time.Second {
			delay = 300 * time.Second
		}
		p.panics++
	}
	s.After(delay, func() {
		if p.down && !s.ended {
			p.Start()
		}
	})
}

// ---------------------------------------------------------------------------
// admission chain of the simulated API server

const workloadTypeLabel = "rollouts.kruise.io/workload-type"

func (p *Process) admit(op string, gvk schema.GroupVersionKind, old, new client.Object, actor string) (client.Object, error) {
	out, err := p.admit0(op, gvk, old, new, actor)
	if err == nil && op == "UPDATE" && p.sim.admissionHook != nil && isWorkloadGK(ObjKey{GK: gvk.GroupKind()}) {
		p.sim.admissionHook(actor, old, new, out)
	}
	return out, err
}

func (p *Process) admit0(op string, gvk schema.GroupVersionKind, old, new client.Object, actor string) (client.Object, error) {
	var h admission.Handler
	switch {
	case gvk.Group == "rollouts.kruise.io" && gvk.Kind == "Rollout":
		h = nil
		if !p.down {
			h = p.whRollout
		}
		return p.callWebhook(h, op, gvk, old, new, false)
	case op == "UPDATE" && ((gvk.Group == "apps" && gvk.Kind == "Deployment") || (gvk.Group == "apps.kruise.io" && (gvk.Kind == "CloneSet" || gvk.Kind == "DaemonSet"))):
		if !hasLabel(old, workloadTypeLabel) && !hasLabel(new, workloadTypeLabel) {
			return new, nil
		}
		if !p.down {
			h = p.whWorkload
		}
		return p.callWebhook(h, op, gvk, old, new, true)
	case op == "UPDATE" && gvk.Kind == "StatefulSet":
		if !hasLabel(old, workloadTypeLabel) && !hasLabel(new, workloadTypeLabel) {
			return new, nil
		}
		if !p.down {
			h = p.whUnified
		}
		return p.callWebhook(h, op, gvk, old, new, true)
	}
	return new, nil
}

func hasLabel(o client.Object, k string) bool {
	if o == nil {
		return false
	}
	_, ok := o.GetLabels()[k]
	return ok
}

func (p *Process) callWebhook(h admission.Handler, op string, gvk schema.GroupVersionKind, old, new client.Object, mutating bool) (client.Object, error) {
	s := p.sim
	if h == nil {
		s.stat("admission.unavailable")
		return nil, apierrors.NewInternalError(fmt.Errorf("failed calling webhook: connection refused (controller process is down)"))
	}
	s.stat("admission.calls")
	no := false
	req := admission.Request{AdmissionRequest: admissionv1.AdmissionRequest{
		UID:       types.UID(fmt.Sprintf("adm-%d", s.Store.seq)),
		Kind:      metav1.GroupVersionKind{Group: gvk.Group, Version: gvk.Version, Kind: gvk.Kind},
		Resource:  metav1.GroupVersionResource{Group: gvk.Group, Version: gvk.Version, Resource: plural(gvk.Kind)},
		Name:      new.GetName(),
		Namespace: new.GetNamespace(),
		Operation: admissionv1.Operation(op),
		DryRun:    &no,
	}}
	raw := s.Store.encode(new)
	req.Object = runtime.RawExtension{Raw: raw}
	if old != nil {
		req.OldObject = runtime.RawExtension{Raw: s.Store.encode(old)}
	}
	if os.Getenv("KSIM_DEBUG_ADM") != "" && old != nil {
		fmt.Printf("ADM %s seq=%d\n OLD %s\n NEW %s\n", gvk.Kind, s.Store.seq, string(req.OldObject.Raw), string(raw))
	}
	var resp admission.Response
	var pv interface{}
	func() {
		defer func() {
			if r := recover(); r != nil {
				if _, isPoison := r.(poisonT); isPoison {
					panic(r)
				}
				pv = r
			}
		}()
		resp = h.Handle(context.Background(), req)
	}()
	if pv != nil {
		s.Violate("C09", "P1-panic", "panic/webhook/"+firstLine(fmt.Sprint(pv)), s.Store.seq, "panic in admission webhook for %s %s/%s: %v", gvk.Kind, new.GetNamespace(), new.GetName(), pv)
		return nil, apierrors.NewInternalError(fmt.Errorf("webhook panicked"))
	}
	if !resp.Allowed {
		code := int32(http.StatusForbidden)
		msg := "denied"
		if resp.Result != nil {
			if resp.Result.Code != 0 {
				code = resp.Result.Code
			}
			msg = resp.Result.Message
			if msg == "" {
				msg = string(resp.Result.Reason)
			}
		}
		s.stat("admission.denied")
		return nil, &apierrors.StatusError{ErrStatus: metav1.Status{Status: metav1.StatusFailure, Code: code, Reason: metav1.StatusReasonInvalid, Message: "admission webhook denied the request: " + msg}}
	}
	if len(resp.Patches) == 0 {
		return new, nil
	}
	pj, err := json.Marshal(resp.Patches)
	if err != nil {
		return nil, err
	}
	jp, err := jsonpatch.DecodePatch(pj)
	if err != nil {
		return nil, err
	}
	out, err := jp.Apply(raw)
	if err != nil {
		return nil, apierrors.NewInternalError(fmt.Errorf("applying webhook patch: %v", err))
	}
	s.stat("admission.mutated")
	mutated, err := s.Store.decode(out, gvk)
	if err != nil {
		return nil, err
	}
	return mutated, nil
}

func plural(kind string) string {
	switch kind {
	case "Ingress":
		return "ingresses"
	}
	b := []byte(kind)
	for i := range b {
		if b[i] >= 'A' && b[i] <= 'Z' {
			b[i] += 'a' - 'A'
		}
	}
	return string(b) + "s"
}
