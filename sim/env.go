package ksim

import (
	"context"
	"encoding/json"
	"fmt"
	"hash/fnv"
	"sort"
	"strconv"
	"strings"
	"time"

	kruisev1alpha1 "github.com/openkruise/kruise-api/apps/v1alpha1"
	appsv1 "k8s.io/api/apps/v1"
	corev1 "k8s.io/api/core/v1"
	apierrors "k8s.io/apimachinery/pkg/api/errors"
	metav1 "k8s.io/apimachinery/pkg/apis/meta/v1"
	"k8s.io/apimachinery/pkg/runtime/schema"
	"k8s.io/apimachinery/pkg/types"
	"k8s.io/apimachinery/pkg/util/intstr"
	"sigs.k8s.io/controller-runtime/pkg/client"

	rutil "github.com/openkruise/rollouts/pkg/util"
)

// Env holds the executable models of everything the repository relies on but does not contain:
// native Deployment and ReplicaSet controllers, kubelet (pod readiness), Kruise CloneSet /
// StatefulSet / DaemonSet controllers and the garbage collector.  Every action is an ordinary
// store write through the "env" handle.  Models only do what the real component may do.
type Env struct {
	sim *Sim
	h   *Handle
	ctx context.Context

	dirty     map[ObjKey]time.Time
	dirtyKeys []ObjKey

	// pod readiness bookkeeping: pod UID -> time it became ready (kubelet's view)
	failVersion      string // pods whose image is app:<failVersion> never become ready
	FailingRev       map[string]bool
	NativeHashCompat bool                                             // native Deployment model uses the same hash as util.ComputeHash
	Fast             bool                                             // setup phase: no delays
	revTemplates     map[types.UID]map[string]*corev1.PodTemplateSpec // CloneSet/STS/DS revision history
	gcDirty          bool
	gcDue            time.Time
	Nodes            int // DaemonSet: number of nodes
}

var (
	gkDeployment = schema.GroupKind{Group: "apps", Kind: "Deployment"}
	gkRS         = schema.GroupKind{Group: "apps", Kind: "ReplicaSet"}
	gkPod        = schema.GroupKind{Group: "", Kind: "Pod"}
	gkCloneSet   = schema.GroupKind{Group: "apps.kruise.io", Kind: "CloneSet"}
	gkService    = schema.GroupKind{Group: "", Kind: "Service"}
	gkRollout    = schema.GroupKind{Group: "rollouts.kruise.io", Kind: "Rollout"}
	gkBR         = schema.GroupKind{Group: "rollouts.kruise.io", Kind: "BatchRelease"}
	gkIngress    = schema.GroupKind{Group: "networking.k8s.io", Kind: "Ingress"}
	gkHTTPRoute  = schema.GroupKind{Group: "gateway.networking.k8s.io", Kind: "HTTPRoute"}
)

func NewEnv(s *Sim) *Env {
	e := &Env{sim: s, ctx: context.Background(), dirty: map[ObjKey]time.Time{}, FailingRev: map[string]bool{},
		revTemplates: map[types.UID]map[string]*corev1.PodTemplateSpec{}, Nodes: 3}
	e.h = s.NewHandle("env", nil, false)
	s.Env = e
	s.Store.Watchers = append(s.Store.Watchers, e.onEvent)
	s.actors = append(s.actors, e)
	return e
}

func (e *Env) delay() time.Duration {
	if e.Fast || e.sim.Cfg.EnvDelayMaxMs <= 0 {
		return 0
	}
	return time.Duration(e.sim.T.Next(e.sim.Cfg.EnvDelayMaxMs+1)) * time.Millisecond
}

func (e *Env) markDirty(k ObjKey, d time.Duration) {
	due := e.sim.Now().Add(d)
	if old, ok := e.dirty[k]; ok {
		if old.Before(due) {
			return
		}
	} else {
		e.dirtyKeys = insertKeySorted(e.dirtyKeys, k)
	}
	e.dirty[k] = due
	if d > 0 {
		e.sim.After(d, func() {})
	}
}

func (e *Env) clearDirty(k ObjKey) {
	delete(e.dirty, k)
	for i := range e.dirtyKeys {
		if e.dirtyKeys[i] == k {
			e.dirtyKeys = append(e.dirtyKeys[:i], e.dirtyKeys[i+1:]...)
			return
		}
	}
}

func ownerKey(o client.Object) (ObjKey, bool) {
	ref := metav1.GetControllerOf(o)
	if ref == nil {
		return ObjKey{}, false
	}
	gv, _ := schema.ParseGroupVersion(ref.APIVersion)
	return ObjKey{GK: schema.GroupKind{Group: gv.Group, Kind: ref.Kind}, NS: o.GetNamespace(), Name: ref.Name}, true
}

func (e *Env) onEvent(ev Event) {
	o := ev.New
	if o == nil {
		o = ev.Old
	}
	switch ev.Key.GK {
	case gkDeployment, gkCloneSet:
		if ev.Type == EvDeleted {
			e.markGC()
			return
		}
		e.markDirty(ev.Key, e.delay())
	case gkRS:
		if ev.Type == EvDeleted {
			e.markGC()
		} else {
			e.markDirty(ev.Key, e.delay())
		}
		if ok, has := ownerKey(o); has {
			e.markDirty(ok, e.delay())
		}
	case gkPod:
		if ok, has := ownerKey(o); has {
			e.markDirty(ok, e.delay())
		}
	case gkRollout, gkBR:
		if ev.Type == EvDeleted {
			e.markGC()
		}
	}
}

// markGC: the garbage collector notices a deleted owner after a drawn lag.
func (e *Env) markGC() {
	if e.gcDirty {
		return
	}
	e.gcDirty = true
	d := time.Duration(0)
	if !e.Fast && e.sim.Cfg.GCLagMaxMs > 0 {
		d = time.Duration(e.sim.T.Next(e.sim.Cfg.GCLagMaxMs+1)) * time.Millisecond
	}
	e.gcDue = e.sim.Now().Add(d)
	if d > 0 {
		e.sim.After(d, func() {})
	}
}

func (e *Env) Options(s *Sim) []option {
	var opts []option
	now := s.Now()
	for _, k := range e.dirtyKeys {
		if !e.dirty[k].After(now) {
			kk := k
			opts = append(opts, option{"env:" + k.String(), func() { e.sync(kk) }})
		}
	}
	if e.gcDirty && !now.Before(e.gcDue) {
		opts = append(opts, option{"env:gc", func() { e.gc() }})
	}
	return opts
}

func (e *Env) sync(k ObjKey) {
	e.clearDirty(k)
	s := e.sim
	s.recSeq++
	t := &Task{ID: 0, Name: "env:" + k.String(), Actor: "env", RecID: s.recSeq, FirstRead: map[ObjKey]readRec{}, LastRead: map[ObjKey]readRec{}}
	prev := s.cur
	s.cur = t
	defer func() { s.cur = prev }()
	s.stat("env.sync")
	switch k.GK {
	case gkDeployment:
		e.syncDeployment(k)
	case gkRS:
		e.syncReplicaSet(k)
	case gkCloneSet:
		e.syncCloneSet(k)
	}
}

// ---------------------------------------------------------------------------
// helpers

func modelHash(t *corev1.PodTemplateSpec) string {
	c := t.DeepCopy()
	delete(c.Labels, appsv1.DefaultDeploymentUniqueLabelKey)
	b, _ := json.Marshal(c)
	h := fnv.New32a()
	h.Write(b)
	h.Write([]byte("ksim-native"))
	return rutil.SafeEncodeString(fmt.Sprint(h.Sum32()))
}

func (e *Env) podsOwnedBy(ns string, uid types.UID) []*corev1.Pod {
	var out []*corev1.Pod
	st := e.sim.Store
	for _, k := range st.keys {
		if k.GK != gkPod || k.NS != ns {
			continue
		}
		p := st.objs[k].(*corev1.Pod)
		if ref := metav1.GetControllerOf(p); ref != nil && ref.UID == uid {
			out = append(out, p)
		}
	}
	return out
}

func podReady(p *corev1.Pod) bool { return rutil.IsPodReady(p) }

func podReadySince(p *corev1.Pod) (time.Time, bool) {
	for _, c := range p.Status.Conditions {
		if c.Type == corev1.PodReady && c.Status == corev1.ConditionTrue {
			return c.LastTransitionTime.Time, true
		}
	}
	return time.Time{}, false
}

func (e *Env) podAvailable(p *corev1.Pod, minReady int32) bool {
	t, ok := podReadySince(p)
	if !ok || p.DeletionTimestamp != nil {
		return false
	}
	return minReady == 0 || !e.sim.Now().Before(t.Add(time.Duration(minReady)*time.Second))
}

func (e *Env) createPod(owner client.Object, ownerGVK schema.GroupVersionKind, tmpl *corev1.PodTemplateSpec, extraLabels map[string]string, name string) {
	labels := map[string]string{}
	for k, v := range tmpl.Labels {
		labels[k] = v
	}
	for k, v := range extraLabels {
		labels[k] = v
	}
	yes := true
	p := &corev1.Pod{
		ObjectMeta: metav1.ObjectMeta{
			Namespace:   owner.GetNamespace(),
			Labels:      labels,
			Annotations: tmpl.Annotations,
			OwnerReferences: []metav1.OwnerReference{{APIVersion: ownerGVK.GroupVersion().String(), Kind: ownerGVK.Kind,
				Name: owner.GetName(), UID: owner.GetUID(), Controller: &yes, BlockOwnerDeletion: &yes}},
		},
		Spec: *tmpl.Spec.DeepCopy(),
	}
	if name != "" {
		p.Name = name
	} else {
		p.GenerateName = owner.GetName() + "-"
	}
	if err := e.h.Create(e.ctx, p); err != nil {
		return
	}
	e.sim.stat("env.pod-create")
	if e.failVersion != "" && len(p.Spec.Containers) > 0 && p.Spec.Containers[0].Image == "app:"+e.failVersion {
		return
	}
	d := time.Duration(0)
	if !e.Fast && e.sim.Cfg.ReadyDelayMaxS > 0 {
		d = time.Duration(e.sim.T.Next(e.sim.Cfg.ReadyDelayMaxS*1000+1)) * time.Millisecond
	}
	key := types.NamespacedName{Namespace: p.Namespace, Name: p.Name}
	uid := p.UID
	e.sim.After(d, func() { e.setPodReady(key, uid, true) })
}

func (e *Env) setPodReady(key types.NamespacedName, uid types.UID, ready bool) {
	if e.sim.ended {
		return
	}
	p := &corev1.Pod{}
	if err := e.h.Get(e.ctx, key, p); err != nil || p.UID != uid || p.DeletionTimestamp != nil {
		return
	}
	st := corev1.ConditionFalse
	if ready {
		st = corev1.ConditionTrue
	}
	found := false
	for i := range p.Status.Conditions {
		if p.Status.Conditions[i].Type == corev1.PodReady {
			found = true
			if p.Status.Conditions[i].Status == st {
				return
			}
			p.Status.Conditions[i].Status = st
			p.Status.Conditions[i].LastTransitionTime = metav1.Time{Time: e.sim.Now()}
		}
	}
	if !found {
		p.Status.Conditions = append(p.Status.Conditions, corev1.PodCondition{Type: corev1.PodReady, Status: st, LastTransitionTime: metav1.Time{Time: e.sim.Now()}})
	}
	p.Status.Phase = corev1.PodRunning
	_ = e.h.Status().Update(e.ctx, p)
}

func scaled(v *intstr.IntOrString, total int, roundUp bool, def int) int {
	if v == nil {
		return def
	}
	n, err := intstr.GetScaledValueFromIntOrPercent(v, total, roundUp)
	if err != nil {
		return def
	}
	return n
}

// choose victims: not-ready pods first, then by tape.
func (e *Env) pickVictim(pods []*corev1.Pod) *corev1.Pod {
	var notReady []*corev1.Pod
	for _, p := range pods {
		if !podReady(p) {
			notReady = append(notReady, p)
		}
	}
	if len(notReady) > 0 {
		return notReady[e.sim.T.Next(len(notReady))]
	}
	return pods[e.sim.T.Next(len(pods))]
}

// ---------------------------------------------------------------------------
// ReplicaSet controller + kubelet

func (e *Env) syncReplicaSet(k ObjKey) {
	rs := &appsv1.ReplicaSet{}
	if err := e.h.Get(e.ctx, types.NamespacedName{Namespace: k.NS, Name: k.Name}, rs); err != nil {
		return
	}
	if rs.DeletionTimestamp != nil {
		return
	}
	pods := e.podsOwnedBy(rs.Namespace, rs.UID)
	want := int(*rs.Spec.Replicas)
	changed := false
	for len(pods) < want {
		e.createPod(rs, appsv1.SchemeGroupVersion.WithKind("ReplicaSet"), &rs.Spec.Template, nil, "")
		changed = true
		pods = e.podsOwnedBy(rs.Namespace, rs.UID)
		if len(pods) < want && !e.Fast && e.sim.T.Next(3) == 0 {
			break // partial progress; come back later
		}
	}
	for len(pods) > want {
		v := e.pickVictim(pods)
		_ = e.h.Delete(e.ctx, v)
		e.sim.stat("env.pod-delete")
		changed = true
		pods = e.podsOwnedBy(rs.Namespace, rs.UID)
	}
	if changed && len(pods) != want {
		e.markDirty(k, e.delay())
	}
	st := appsv1.ReplicaSetStatus{ObservedGeneration: rs.Generation, Replicas: int32(len(pods)), FullyLabeledReplicas: int32(len(pods))}
	var nextAvail time.Time
	for _, p := range pods {
		if podReady(p) {
			st.ReadyReplicas++
			if e.podAvailable(p, rs.Spec.MinReadySeconds) {
				st.AvailableReplicas++
			} else if t, ok := podReadySince(p); ok {
				at := t.Add(time.Duration(rs.Spec.MinReadySeconds) * time.Second)
				if nextAvail.IsZero() || at.Before(nextAvail) {
					nextAvail = at
				}
			}
		}
	}
	if !nextAvail.IsZero() && nextAvail.Sub(e.sim.Now()) < 24*time.Hour {
		e.markDirty(k, nextAvail.Sub(e.sim.Now())+time.Millisecond)
	}
	if rs.Status.ObservedGeneration != st.ObservedGeneration || rs.Status.Replicas != st.Replicas || rs.Status.ReadyReplicas != st.ReadyReplicas ||
		rs.Status.AvailableReplicas != st.AvailableReplicas || rs.Status.FullyLabeledReplicas != st.FullyLabeledReplicas {
		rs.Status = st
		_ = e.h.Status().Update(e.ctx, rs)
	}
}

// ---------------------------------------------------------------------------
// native Deployment controller

const (
	revisionAnno = "deployment.kubernetes.io/revision"
	desiredAnno  = "deployment.kubernetes.io/desired-replicas"
	maxAnno      = "deployment.kubernetes.io/max-replicas"
)

func (e *Env) rsOwnedBy(ns string, uid types.UID) []*appsv1.ReplicaSet {
	var out []*appsv1.ReplicaSet
	st := e.sim.Store
	for _, k := range st.keys {
		if k.GK != gkRS || k.NS != ns {
			continue
		}
		rs := st.objs[k].(*appsv1.ReplicaSet)
		if ref := metav1.GetControllerOf(rs); ref != nil && ref.UID == uid && rs.DeletionTimestamp == nil {
			out = append(out, rs)
		}
	}
	sort.SliceStable(out, func(i, j int) bool {
		if !out[i].CreationTimestamp.Equal(&out[j].CreationTimestamp) {
			return out[i].CreationTimestamp.Before(&out[j].CreationTimestamp)
		}
		return out[i].Name < out[j].Name
	})
	return out
}

func rsRevision(rs *appsv1.ReplicaSet) int {
	n, _ := strconv.Atoi(rs.Annotations[revisionAnno])
	return n
}

func (e *Env) scaleRS(rs *appsv1.ReplicaSet, n int32, d *appsv1.Deployment) {
	c := rs.DeepCopy()
	c.Spec.Replicas = &n
	if c.Annotations == nil {
		c.Annotations = map[string]string{}
	}
	surge := scaled(ruMaxSurge(d), int(*d.Spec.Replicas), true, 0)
	c.Annotations[desiredAnno] = fmt.Sprint(*d.Spec.Replicas)
	c.Annotations[maxAnno] = fmt.Sprint(int(*d.Spec.Replicas) + surge)
	if err := e.h.Update(e.ctx, c); err == nil {
		e.sim.stat("env.rs-scale")
	}
}

func ruMaxSurge(d *appsv1.Deployment) *intstr.IntOrString {
	if d.Spec.Strategy.RollingUpdate != nil {
		return d.Spec.Strategy.RollingUpdate.MaxSurge
	}
	return nil
}
func ruMaxUnavailable(d *appsv1.Deployment) *intstr.IntOrString {
	if d.Spec.Strategy.RollingUpdate != nil {
		return d.Spec.Strategy.RollingUpdate.MaxUnavailable
	}
	return nil
}

func (e *Env) nativeHash(t *corev1.PodTemplateSpec) string {
	if e.NativeHashCompat {
		return rutil.ComputeHash(t, nil)
	}
	return modelHash(t)
}

func (e *Env) syncDeployment(k ObjKey) {
	d := &appsv1.Deployment{}
	if err := e.h.Get(e.ctx, types.NamespacedName{Namespace: k.NS, Name: k.Name}, d); err != nil {
		return
	}
	if d.DeletionTimestamp != nil {
		return
	}
	rss := e.rsOwnedBy(d.Namespace, d.UID)
	var newRS *appsv1.ReplicaSet
	var oldRSs []*appsv1.ReplicaSet
	for _, rs := range rss {
		if newRS == nil && rutil.EqualIgnoreHash(&rs.Spec.Template, &d.Spec.Template) {
			newRS = rs
		} else {
			oldRSs = append(oldRSs, rs)
		}
	}
	replicas := *d.Spec.Replicas
	rolling := d.Spec.Strategy.Type == "" || d.Spec.Strategy.Type == appsv1.RollingUpdateDeploymentStrategyType
	acted := false
	// upstream getNewReplicaSet: an existing new ReplicaSet follows the Deployment's minReadySeconds (old ones do not)
	if newRS != nil && !d.Spec.Paused && newRS.Spec.MinReadySeconds != d.Spec.MinReadySeconds {
		newRS = newRS.DeepCopy() // the listed objects are the store's own snapshots
		newRS.Spec.MinReadySeconds = d.Spec.MinReadySeconds
		if err := e.h.Update(e.ctx, newRS); err != nil {
			e.markDirty(k, e.delay())
			return
		}
		acted = true
	}

	var active []*appsv1.ReplicaSet
	for _, rs := range rss {
		if *rs.Spec.Replicas > 0 {
			active = append(active, rs)
		}
	}
	maxRev := 0
	for _, rs := range oldRSs {
		if r := rsRevision(rs); r > maxRev {
			maxRev = r
		}
	}

	scaleLogic := func() {
		// upstream scale(): a single active (or the latest) ReplicaSet follows the deployment size
		var target *appsv1.ReplicaSet
		switch len(active) {
		case 0:
			if newRS != nil {
				target = newRS
			} else if len(oldRSs) > 0 {
				target = oldRSs[len(oldRSs)-1]
			}
		case 1:
			target = active[0]
		}
		if target != nil {
			if *target.Spec.Replicas != replicas {
				e.scaleRS(target, replicas, d)
				acted = true
			}
			return
		}
		if rolling && len(active) > 1 {
			// proportional scaling, simplified: adjust the largest active ReplicaSet by the difference
			surge := scaled(ruMaxSurge(d), int(replicas), true, 0)
			total := int32(0)
			for _, rs := range active {
				total += *rs.Spec.Replicas
			}
			allowed := replicas + int32(surge)
			if newRS == nil || *newRS.Spec.Replicas == 0 {
				allowed = replicas
			}
			want := allowed
			desired, err := strconv.Atoi(active[0].Annotations[desiredAnno])
			if err == nil && int32(desired) == replicas {
				return // not a scaling event
			}
			diff := want - total
			if diff == 0 {
				for _, rs := range active {
					e.scaleRS(rs, *rs.Spec.Replicas, d) // refresh annotations only
				}
				return
			}
			big := active[0]
			for _, rs := range active {
				if *rs.Spec.Replicas > *big.Spec.Replicas {
					big = rs
				}
			}
			n := *big.Spec.Replicas + diff
			if n < 0 {
				n = 0
			}
			e.scaleRS(big, n, d)
			for _, rs := range active {
				if rs != big {
					e.scaleRS(rs, *rs.Spec.Replicas, d)
				}
			}
			acted = true
		}
	}

	switch {
	case d.Spec.Paused:
		scaleLogic()
	case !rolling:
		// Recreate: old down to zero, wait for their pods to go, then new up
		oldActive := false
		for _, rs := range oldRSs {
			if *rs.Spec.Replicas > 0 {
				e.scaleRS(rs, 0, d)
				oldActive = true
				acted = true
			} else if rs.Status.Replicas > 0 {
				oldActive = true
			}
		}
		if !oldActive {
			if newRS == nil {
				newRS = e.createNewRS(d, replicas, maxRev+1)
				acted = true
			} else if *newRS.Spec.Replicas != replicas {
				e.scaleRS(newRS, replicas, d)
				acted = true
			}
		}
	default:
		// detect scaling events first (upstream isScalingEvent)
		scalingEvent := false
		for _, rs := range active {
			if desired, err := strconv.Atoi(rs.Annotations[desiredAnno]); err == nil && int32(desired) != replicas {
				scalingEvent = true
			}
		}
		if scalingEvent {
			scaleLogic()
			break
		}
		surge := int32(scaled(ruMaxSurge(d), int(replicas), true, 0))
		unavail := int32(scaled(ruMaxUnavailable(d), int(replicas), false, 0))
		if surge == 0 && unavail == 0 {
			unavail = 1
		}
		if unavail > replicas {
			unavail = replicas
		}
		total := int32(0)
		for _, rs := range rss {
			total += *rs.Spec.Replicas
		}
		if newRS == nil {
			n := replicas
			if room := replicas + surge - total; room < n {
				n = room
			}
			if n < 0 {
				n = 0
			}
			newRS = e.createNewRS(d, n, maxRev+1)
			acted = true
			break
		}
		if *newRS.Spec.Replicas > replicas {
			e.scaleRS(newRS, replicas, d)
			acted = true
			break
		}
		if *newRS.Spec.Replicas < replicas {
			room := replicas + surge - total
			if room > 0 {
				up := replicas - *newRS.Spec.Replicas
				if room < up {
					up = room
				}
				e.scaleRS(newRS, *newRS.Spec.Replicas+up, d)
				acted = true
				break
			}
		}
		// scale down old
		oldPods := int32(0)
		for _, rs := range oldRSs {
			oldPods += *rs.Spec.Replicas
		}
		if oldPods == 0 {
			break
		}
		minAvailable := replicas - unavail
		newUnavailable := *newRS.Spec.Replicas - newRS.Status.AvailableReplicas
		maxScaledDown := total - minAvailable - newUnavailable
		if maxScaledDown <= 0 {
			break
		}
		// unhealthy old replicas first
		for _, rs := range oldRSs {
			if maxScaledDown <= 0 {
				break
			}
			if *rs.Spec.Replicas == 0 || *rs.Spec.Replicas == rs.Status.AvailableReplicas {
				continue
			}
			unhealthy := *rs.Spec.Replicas - rs.Status.AvailableReplicas
			n := unhealthy
			if n > maxScaledDown {
				n = maxScaledDown
			}
			e.scaleRS(rs, *rs.Spec.Replicas-n, d)
			maxScaledDown -= n
			total -= n
			acted = true
		}
		if acted {
			break
		}
		availablePods := int32(0)
		for _, rs := range rss {
			availablePods += rs.Status.AvailableReplicas
		}
		down := availablePods - minAvailable
		for _, rs := range oldRSs {
			if down <= 0 {
				break
			}
			if *rs.Spec.Replicas == 0 {
				continue
			}
			n := *rs.Spec.Replicas
			if n > down {
				n = down
			}
			e.scaleRS(rs, *rs.Spec.Replicas-n, d)
			down -= n
			acted = true
		}
	}
	if acted {
		e.markDirty(k, e.delay())
	}
	// status
	rss = e.rsOwnedBy(d.Namespace, d.UID)
	st := appsv1.DeploymentStatus{ObservedGeneration: d.Generation, Conditions: d.Status.Conditions, CollisionCount: d.Status.CollisionCount}
	for _, rs := range rss {
		st.Replicas += rs.Status.Replicas
		st.ReadyReplicas += rs.Status.ReadyReplicas
		st.AvailableReplicas += rs.Status.AvailableReplicas
		if rutil.EqualIgnoreHash(&rs.Spec.Template, &d.Spec.Template) {
			st.UpdatedReplicas += rs.Status.Replicas
		}
	}
	totalSpec := int32(0)
	for _, rs := range rss {
		totalSpec += *rs.Spec.Replicas
	}
	if u := totalSpec - st.AvailableReplicas; u > 0 {
		st.UnavailableReplicas = u
	}
	if d.Status.ObservedGeneration != st.ObservedGeneration || d.Status.Replicas != st.Replicas || d.Status.ReadyReplicas != st.ReadyReplicas ||
		d.Status.AvailableReplicas != st.AvailableReplicas || d.Status.UpdatedReplicas != st.UpdatedReplicas || d.Status.UnavailableReplicas != st.UnavailableReplicas {
		// the advanced controller of the repository writes the same status fields; both are legal writers
		d.Status = st
		if err := e.h.Status().Update(e.ctx, d); err != nil && apierrors.IsConflict(err) {
			e.markDirty(k, e.delay())
		}
	}
}

func (e *Env) createNewRS(d *appsv1.Deployment, n int32, revision int) *appsv1.ReplicaSet {
	tmpl := d.Spec.Template.DeepCopy()
	hash := e.nativeHash(tmpl)
	if tmpl.Labels == nil {
		tmpl.Labels = map[string]string{}
	}
	tmpl.Labels[appsv1.DefaultDeploymentUniqueLabelKey] = hash
	sel := d.Spec.Selector.DeepCopy()
	if sel.MatchLabels == nil {
		sel.MatchLabels = map[string]string{}
	}
	sel.MatchLabels[appsv1.DefaultDeploymentUniqueLabelKey] = hash
	yes := true
	surge := scaled(ruMaxSurge(d), int(*d.Spec.Replicas), true, 0)
	rs := &appsv1.ReplicaSet{
		ObjectMeta: metav1.ObjectMeta{
			Name: d.Name + "-" + hash, Namespace: d.Namespace, Labels: tmpl.Labels,
			Annotations:     map[string]string{revisionAnno: fmt.Sprint(revision), desiredAnno: fmt.Sprint(*d.Spec.Replicas), maxAnno: fmt.Sprint(int(*d.Spec.Replicas) + surge)},
			OwnerReferences: []metav1.OwnerReference{{APIVersion: "apps/v1", Kind: "Deployment", Name: d.Name, UID: d.UID, Controller: &yes, BlockOwnerDeletion: &yes}},
		},
		Spec: appsv1.ReplicaSetSpec{Replicas: &n, MinReadySeconds: d.Spec.MinReadySeconds, Selector: sel, Template: *tmpl},
	}
	if err := e.h.Create(e.ctx, rs); err != nil {
		return nil
	}
	e.sim.stat("env.rs-create")
	return rs
}

// ---------------------------------------------------------------------------
// Kruise CloneSet controller (documented semantics)

func (e *Env) revisionName(owner client.Object, t *corev1.PodTemplateSpec) string {
	h := rutil.ComputeHash(t, nil)
	name := owner.GetName() + "-" + h
	m := e.revTemplates[owner.GetUID()]
	if m == nil {
		m = map[string]*corev1.PodTemplateSpec{}
		e.revTemplates[owner.GetUID()] = m
	}
	if _, ok := m[name]; !ok {
		m[name] = t.DeepCopy()
	}
	return name
}

func shortHash(rev string) string { return rev[strings.LastIndex(rev, "-")+1:] }

func (e *Env) syncCloneSet(k ObjKey) {
	cs := &kruisev1alpha1.CloneSet{}
	if err := e.h.Get(e.ctx, types.NamespacedName{Namespace: k.NS, Name: k.Name}, cs); err != nil {
		return
	}
	if cs.DeletionTimestamp != nil {
		return
	}
	gvk := kruisev1alpha1.SchemeGroupVersion.WithKind("CloneSet")
	replicas := int(*cs.Spec.Replicas)
	updateRev := e.revisionName(cs, &cs.Spec.Template)
	currentRev := cs.Status.CurrentRevision
	if currentRev == "" || e.revTemplates[cs.UID][currentRev] == nil {
		currentRev = updateRev
	}
	pods := e.podsOwnedBy(cs.Namespace, cs.UID)
	isUpdated := func(p *corev1.Pod) bool { return p.Labels[appsv1.ControllerRevisionHashLabelKey] == updateRev }
	count := func() (updated, notReady int) {
		for _, p := range pods {
			if isUpdated(p) {
				updated++
			}
			if !podReady(p) {
				notReady++
			}
		}
		return
	}
	us := cs.Spec.UpdateStrategy
	keepOld := 0
	if us.Partition != nil {
		keepOld = scaled(us.Partition, replicas, true, 0)
	}
	if keepOld > replicas {
		keepOld = replicas
	}
	target := replicas - keepOld // number of pods that may run the update revision
	maxUnavail := scaled(us.MaxUnavailable, replicas, false, 0)
	if us.MaxUnavailable == nil {
		maxUnavail = scaled(&intstr.IntOrString{Type: intstr.String, StrVal: "20%"}, replicas, false, 1)
	}
	maxSurge := scaled(us.MaxSurge, replicas, true, 0)
	if maxUnavail == 0 && maxSurge == 0 {
		maxUnavail = 1
	}
	mk := func(rev string) {
		t := e.revTemplates[cs.UID][rev]
		e.createPod(cs, gvk, t, map[string]string{appsv1.ControllerRevisionHashLabelKey: rev, appsv1.DefaultDeploymentUniqueLabelKey: shortHash(rev)}, "")
	}
	acted := false
	updated, notReady := count()
	// scale out
	if len(pods) < replicas {
		n := replicas - len(pods)
		for i := 0; i < n; i++ {
			if updated < target {
				mk(updateRev)
				updated++
			} else {
				mk(currentRev)
			}
		}
		acted = true
	} else if len(pods) > replicas+maxSurgeInUse(len(pods), replicas, maxSurge, updated, target, us.Paused) {
		// scale in (prefer not-ready; prefer old revision when more than target are updated... keep it simple and legal)
		extra := len(pods) - replicas
		if !us.Paused && updated < target && maxSurge > 0 {
			// surge pods in use
			extra -= min(maxSurge, target-updated)
		}
		for i := 0; i < extra; i++ {
			cands := pods
			// never delete an updated pod when old ones exist beyond what the partition keeps
			var olds []*corev1.Pod
			for _, p := range pods {
				if !isUpdated(p) {
					olds = append(olds, p)
				}
			}
			if updateRev != currentRev && len(olds) > keepOld {
				cands = olds
			}
			v := e.pickVictim(cands)
			_ = e.h.Delete(e.ctx, v)
			e.sim.stat("env.pod-delete")
			pods = e.podsOwnedBy(cs.Namespace, cs.UID)
		}
		acted = extra > 0
	} else if !us.Paused && updated < target {
		// rolling update, recreate style: replace one or more old pods
		budget := maxUnavail - notReady
		if maxSurge > 0 && len(pods) < replicas+maxSurge {
			// surge first
			n := min(replicas+maxSurge-len(pods), target-updated)
			for i := 0; i < n; i++ {
				mk(updateRev)
			}
			acted = n > 0
		} else if budget > 0 {
			n := min(budget, target-updated)
			if !e.Fast && n > 1 {
				n = 1 + e.sim.T.Next(n)
			}
			var olds []*corev1.Pod
			for _, p := range pods {
				if !isUpdated(p) {
					olds = append(olds, p)
				}
			}
			for i := 0; i < n && len(olds) > 0; i++ {
				j := e.sim.T.Next(len(olds))
				v := olds[j]
				olds = append(olds[:j], olds[j+1:]...)
				_ = e.h.Delete(e.ctx, v)
				e.sim.stat("env.pod-delete")
				mk(updateRev)
			}
			acted = true
		}
	}
	if acted {
		e.markDirty(k, e.delay())
	}
	pods = e.podsOwnedBy(cs.Namespace, cs.UID)
	st := cs.Status.DeepCopy()
	st.ObservedGeneration = cs.Generation
	st.Replicas = int32(len(pods))
	st.ReadyReplicas, st.AvailableReplicas, st.UpdatedReplicas, st.UpdatedReadyReplicas = 0, 0, 0, 0
	var nextAvail time.Time
	for _, p := range pods {
		up := isUpdated(p)
		if up {
			st.UpdatedReplicas++
		}
		if podReady(p) {
			st.ReadyReplicas++
			if up {
				st.UpdatedReadyReplicas++
			}
			if e.podAvailable(p, cs.Spec.MinReadySeconds) {
				st.AvailableReplicas++
			} else if t, ok := podReadySince(p); ok {
				at := t.Add(time.Duration(cs.Spec.MinReadySeconds) * time.Second)
				if nextAvail.IsZero() || at.Before(nextAvail) {
					nextAvail = at
				}
			}
		}
	}
	if !nextAvail.IsZero() && nextAvail.Sub(e.sim.Now()) < 24*time.Hour {
		e.markDirty(k, nextAvail.Sub(e.sim.Now())+time.Millisecond)
	}
	st.UpdateRevision = updateRev
	st.CurrentRevision = currentRev
	if int(st.UpdatedReplicas) == len(pods) && len(pods) == replicas {
		st.CurrentRevision = updateRev
	}
	exp := int32(target)
	st.ExpectedUpdatedReplicas = exp
	st.LabelSelector = metav1.FormatLabelSelector(cs.Spec.Selector)
	if !jsonEqual(st, &cs.Status) {
		cs.Status = *st
		if err := e.h.Status().Update(e.ctx, cs); err != nil && apierrors.IsConflict(err) {
			e.markDirty(k, e.delay())
		}
	}
}

func maxSurgeInUse(pods, replicas, maxSurge, updated, target int, paused bool) int {
	if paused || updated >= target {
		return 0
	}
	return min(maxSurge, target-updated)
}

func jsonEqual(a, b interface{}) bool {
	x, _ := json.Marshal(a)
	y, _ := json.Marshal(b)
	return string(x) == string(y)
}

// ---------------------------------------------------------------------------
// garbage collector: background cascading deletion by controller owner reference

func (e *Env) gc() {
	e.gcDirty = false
	st := e.sim.Store
	uids := map[types.UID]bool{}
	for _, k := range st.keys {
		uids[st.objs[k].GetUID()] = true
	}
	var victims []client.Object
	for _, k := range st.keys {
		o := st.objs[k]
		refs := o.GetOwnerReferences()
		if len(refs) == 0 || o.GetDeletionTimestamp() != nil {
			continue
		}
		alive := false
		for _, r := range refs {
			if uids[r.UID] {
				alive = true
			}
		}
		if !alive {
			victims = append(victims, o)
		}
	}
	s := e.sim
	s.recSeq++
	prev := s.cur
	s.cur = &Task{Name: "gc", Actor: "gc", RecID: s.recSeq, FirstRead: map[ObjKey]readRec{}, LastRead: map[ObjKey]readRec{}}
	defer func() { s.cur = prev }()
	gch := s.NewHandle("gc", nil, false)
	for _, v := range victims {
		c := v.DeepCopyObject().(client.Object)
		if err := gch.Delete(e.ctx, c); err == nil {
			s.stat("env.gc-delete")
			e.gcDirty = false
			e.markGC() // dependents of dependents
		}
	}
}

// randomFaults: pod churn injected by the scheduler (kubelet / node problems).
func (e *Env) randomFaults(s *Sim) {
	c := s.Cfg
	if c.PodFlap <= 0 && c.PodKill <= 0 {
		return
	}
	flap := c.PodFlap > 0 && s.T.Chance(c.PodFlap)
	kill := !flap && c.PodKill > 0 && s.T.Chance(c.PodKill)
	if !flap && !kill {
		return
	}
	var pods []*corev1.Pod
	for _, k := range s.Store.keys {
		if k.GK == gkPod {
			p := s.Store.objs[k].(*corev1.Pod)
			if p.DeletionTimestamp == nil {
				pods = append(pods, p)
			}
		}
	}
	if len(pods) == 0 {
		return
	}
	p := pods[s.T.Next(len(pods))]
	s.lastFaultAt = s.Steps
	if kill {
		s.stat("fault.pod-delete")
		_ = e.h.Delete(e.ctx, p.DeepCopy())
		return
	}
	s.stat("fault.pod-unready")
	key := types.NamespacedName{Namespace: p.Namespace, Name: p.Name}
	uid := p.UID
	e.setPodReady(key, uid, false)
	back := time.Duration(1+s.T.Next(20)) * time.Second
	s.After(back, func() { e.setPodReady(key, uid, true) })
}
