package ksim

import "k8s.io/apimachinery/pkg/runtime/schema"

type GKAlias = schema.GroupKind

func installOracles(s *Sim, sc *Scenario) {
	tr := newTrafficOracle(sc)
	s.Oracles = append(s.Oracles, &coreOracle{sc: sc}, tr, &faultOracle{sc: sc, tr: tr})
}
