package ksim

func installOracles(s *Sim, sc *Scenario) {
	s.Oracles = append(s.Oracles, &coreOracle{sc: sc}, newTrafficOracle(sc))
}
