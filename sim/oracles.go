package ksim

func installOracles(s *Sim, sc *Scenario) {
}
