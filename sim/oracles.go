package ksim

import (
	"k8s.io/apimachinery/pkg/runtime/schema"
	"sigs.k8s.io/controller-runtime/pkg/client"
)

type GKAlias = schema.GroupKind

func installOracles(s *Sim, sc *Scenario) {
	tr := newTrafficOracle(sc)
	s.Oracles = append(s.Oracles, &coreOracle{sc: sc}, tr, &faultOracle{sc: sc, tr: tr}, &labelOracle{sc: sc}, &deployOracle{sc: sc}, &diffOracle{sc: sc, tr: tr})
	prevHook := s.admissionHook
	s.admissionHook = func(actor string, old, submitted, admitted client.Object) {
		if prevHook != nil {
			prevHook(actor, old, submitted, admitted)
		}
		if actor == "user" && isWorkloadGK(ObjKey{GK: workloadGK(sc)}) && old != nil && submitted.GetName() == sc.Name && submitted.GetNamespace() == sc.NS {
			s.checkAdmission(sc, old, submitted, admitted)
		}
	}
}
