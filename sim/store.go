package ksim

import (
	"encoding/json"
	"fmt"
	"reflect"
	"sort"
	"strings"
	"time"

	jsonpatch "github.com/evanphx/json-patch"
	apiequality "k8s.io/apimachinery/pkg/api/equality"
	apierrors "k8s.io/apimachinery/pkg/api/errors"
	"k8s.io/apimachinery/pkg/api/meta"
	metav1 "k8s.io/apimachinery/pkg/apis/meta/v1"
	"k8s.io/apimachinery/pkg/apis/meta/v1/unstructured"
	"k8s.io/apimachinery/pkg/labels"
	"k8s.io/apimachinery/pkg/runtime"
	"k8s.io/apimachinery/pkg/runtime/schema"
	"k8s.io/apimachinery/pkg/types"
	"k8s.io/apimachinery/pkg/util/strategicpatch"
	"sigs.k8s.io/controller-runtime/pkg/client"
	"sigs.k8s.io/controller-runtime/pkg/client/apiutil"
)

// ObjKey identifies an object in the store (version independent).
type ObjKey struct {
	GK   schema.GroupKind
	NS   string
	Name string
}

func (k ObjKey) String() string { return fmt.Sprintf("%s/%s/%s", k.GK.Kind, k.NS, k.Name) }

func keyLess(a, b ObjKey) bool {
	if a.GK.Group != b.GK.Group {
		return a.GK.Group < b.GK.Group
	}
	if a.GK.Kind != b.GK.Kind {
		return a.GK.Kind < b.GK.Kind
	}
	if a.NS != b.NS {
		return a.NS < b.NS
	}
	return a.Name < b.Name
}

type EventType int

const (
	EvAdded EventType = iota
	EvModified
	EvDeleted
)

// Event is one watch event.  Old/New are immutable snapshots owned by the store.
type Event struct {
	Type   EventType
	Key    ObjKey
	GVK    schema.GroupVersionKind
	Old    client.Object
	New    client.Object
	Seq    uint64
	Commut bool
}

// Write is one committed write (entry of the write log).
type Write struct {
	Seq     uint64
	Time    time.Time
	Actor   string
	RecID   uint64 // id of the reconcile (or user/env step) that issued it
	Verb    string // create|update|patch|delete|update-status|patch-status|remove (final removal)
	Key     ObjKey
	GVK     schema.GroupVersionKind
	Old     client.Object // nil on create
	New     client.Object // nil on removal
	Fault   string
	Removed bool
	Commut  bool
}

type AdmissionFunc func(op string, gvk schema.GroupVersionKind, old, new client.Object, actor string) (client.Object, error)

type Store struct {
	Scheme *runtime.Scheme
	objs   map[ObjKey]client.Object
	keys   []ObjKey // sorted
	rv     uint64
	uidN   uint64
	nameN  uint64
	seq    uint64
	Now    func() time.Time

	Log       []*Write
	Watchers  []func(Event)
	OnCommit  []func(*Write)
	Admission AdmissionFunc

	// bookkeeping for evidence
	NoopWrites int
}

func NewStore(scheme *runtime.Scheme, now func() time.Time) *Store {
	return &Store{Scheme: scheme, objs: map[ObjKey]client.Object{}, Now: now}
}

func (s *Store) gvkOf(obj runtime.Object) (schema.GroupVersionKind, error) {
	return apiutil.GVKForObject(obj, s.Scheme)
}

func (s *Store) KeyOf(obj client.Object) (ObjKey, schema.GroupVersionKind, error) {
	gvk, err := s.gvkOf(obj)
	if err != nil {
		return ObjKey{}, gvk, err
	}
	return ObjKey{GK: gvk.GroupKind(), NS: obj.GetNamespace(), Name: obj.GetName()}, gvk, nil
}

// newEmpty returns an empty canonical object for gvk: typed when registered, unstructured otherwise.
func (s *Store) newEmpty(gvk schema.GroupVersionKind) client.Object {
	if s.Scheme.Recognizes(gvk) {
		o, err := s.Scheme.New(gvk)
		if err == nil {
			if co, ok := o.(client.Object); ok {
				return co
			}
		}
	}
	u := &unstructured.Unstructured{}
	u.SetGroupVersionKind(gvk)
	return u
}

func setGVK(obj client.Object, gvk schema.GroupVersionKind) {
	obj.GetObjectKind().SetGroupVersionKind(gvk)
}

// canonical converts any client.Object into the store's canonical, normalised (JSON round-tripped) form.
func (s *Store) canonical(obj client.Object, gvk schema.GroupVersionKind) (client.Object, error) {
	var data []byte
	var err error
	if u, ok := obj.(*unstructured.Unstructured); ok {
		data, err = json.Marshal(u.Object)
	} else {
		data, err = json.Marshal(obj)
	}
	if err != nil {
		return nil, err
	}
	return s.decode(data, gvk)
}

func (s *Store) decode(data []byte, gvk schema.GroupVersionKind) (client.Object, error) {
	out := s.newEmpty(gvk)
	if u, ok := out.(*unstructured.Unstructured); ok {
		if err := u.UnmarshalJSON(data); err != nil {
			return nil, err
		}
	} else if err := json.Unmarshal(data, out); err != nil {
		return nil, apierrors.NewBadRequest(err.Error())
	}
	setGVK(out, gvk)
	return out, nil
}

func (s *Store) encode(obj client.Object) []byte {
	var data []byte
	if u, ok := obj.(*unstructured.Unstructured); ok {
		data, _ = json.Marshal(u.Object)
	} else {
		data, _ = json.Marshal(obj)
	}
	return data
}

// into copies a stored object into a caller supplied object (typed or unstructured).
func (s *Store) into(stored client.Object, out client.Object, gvk schema.GroupVersionKind) error {
	if uo, ok := out.(*unstructured.Unstructured); ok {
		if us, ok := stored.(*unstructured.Unstructured); ok {
			uo.Object = us.DeepCopy().Object
			return nil
		}
		m, err := runtime.DefaultUnstructuredConverter.ToUnstructured(stored)
		if err != nil {
			return err
		}
		uo.Object = m
		uo.SetGroupVersionKind(gvk)
		return nil
	}
	if us, ok := stored.(*unstructured.Unstructured); ok {
		if err := runtime.DefaultUnstructuredConverter.FromUnstructured(us.Object, out); err != nil {
			return err
		}
		setGVK(out, gvk)
		return nil
	}
	sv := reflect.ValueOf(stored)
	ov := reflect.ValueOf(out)
	if sv.Type() != ov.Type() {
		return fmt.Errorf("ksim store: type mismatch stored=%T out=%T", stored, out)
	}
	cp := stored.DeepCopyObject()
	ov.Elem().Set(reflect.ValueOf(cp).Elem())
	setGVK(out, gvk)
	return nil
}

func (s *Store) insertKey(k ObjKey) {
	i := sort.Search(len(s.keys), func(i int) bool { return !keyLess(s.keys[i], k) })
	s.keys = append(s.keys, ObjKey{})
	copy(s.keys[i+1:], s.keys[i:])
	s.keys[i] = k
}

func (s *Store) removeKey(k ObjKey) {
	i := sort.Search(len(s.keys), func(i int) bool { return !keyLess(s.keys[i], k) })
	if i < len(s.keys) && s.keys[i] == k {
		s.keys = append(s.keys[:i], s.keys[i+1:]...)
	}
}

// Peek returns the stored (immutable!) object or nil.
func (s *Store) Peek(k ObjKey) client.Object { return s.objs[k] }

// Keys returns the sorted keys of a group-kind (all when gk is empty).
func (s *Store) Keys(gk schema.GroupKind) []ObjKey {
	var out []ObjKey
	for _, k := range s.keys {
		if gk.Kind == "" || k.GK == gk {
			out = append(out, k)
		}
	}
	return out
}

func (s *Store) Get(key types.NamespacedName, out client.Object) error {
	k, gvk, err := s.KeyOf(out)
	if err != nil {
		return err
	}
	k.NS, k.Name = key.Namespace, key.Name
	stored := s.objs[k]
	if stored == nil {
		return apierrors.NewNotFound(schema.GroupResource{Group: gvk.Group, Resource: strings.ToLower(gvk.Kind) + "s"}, key.Name)
	}
	return s.into(stored, out, gvk)
}

// ListInto fills list from the given snapshot map (used by both the store and caches).
func listInto(s *Store, objs map[ObjKey]client.Object, keys []ObjKey, list client.ObjectList, opts ...client.ListOption) error {
	gvk, err := s.gvkOf(list)
	if err != nil {
		return err
	}
	gvk.Kind = strings.TrimSuffix(gvk.Kind, "List")
	lo := client.ListOptions{}
	lo.ApplyOptions(opts)
	var sel labels.Selector = lo.LabelSelector
	_, isUL := list.(*unstructured.UnstructuredList)
	var items []runtime.Object
	for _, k := range keys {
		if k.GK != gvk.GroupKind() {
			continue
		}
		if lo.Namespace != "" && k.NS != lo.Namespace {
			continue
		}
		o := objs[k]
		if o == nil {
			continue
		}
		if sel != nil && !sel.Matches(labels.Set(o.GetLabels())) {
			continue
		}
		var item client.Object
		if isUL {
			item = &unstructured.Unstructured{}
		} else {
			item = s.newEmpty(gvk)
		}
		if err := s.into(o, item, gvk); err != nil {
			return err
		}
		items = append(items, item)
	}
	return meta.SetList(list, items)
}

func (s *Store) List(list client.ObjectList, opts ...client.ListOption) error {
	return listInto(s, s.objs, s.keys, list, opts...)
}

func hasStatusField(obj client.Object) bool {
	if _, ok := obj.(*unstructured.Unstructured); ok {
		return false
	}
	v := reflect.ValueOf(obj).Elem()
	return v.FieldByName("Status").IsValid()
}

func copyStatus(dst, src client.Object) {
	dv := reflect.ValueOf(dst).Elem().FieldByName("Status")
	sv := reflect.ValueOf(src).Elem().FieldByName("Status")
	if dv.IsValid() && sv.IsValid() {
		dv.Set(sv)
	}
}

// specChanged reports whether anything outside metadata and status differs.
func specChanged(a, b client.Object) bool {
	if ua, ok := a.(*unstructured.Unstructured); ok {
		ub := b.(*unstructured.Unstructured)
		for k, v := range ua.Object {
			if k == "metadata" || k == "status" {
				continue
			}
			if !reflect.DeepEqual(v, ub.Object[k]) {
				return true
			}
		}
		for k := range ub.Object {
			if k == "metadata" || k == "status" {
				continue
			}
			if _, ok := ua.Object[k]; !ok {
				return true
			}
		}
		return false
	}
	av := reflect.ValueOf(a).Elem()
	bv := reflect.ValueOf(b).Elem()
	for i := 0; i < av.NumField(); i++ {
		n := av.Type().Field(i).Name
		if n == "TypeMeta" || n == "ObjectMeta" || n == "Status" {
			continue
		}
		if !apiequality.Semantic.DeepEqual(av.Field(i).Interface(), bv.Field(i).Interface()) {
			return true
		}
	}
	return false
}

type writeCtx struct {
	Actor  string
	RecID  uint64
	Fault  string
	Commut bool // write belongs to a group whose internal order is undefined (Go map iteration in the caller)
}

func (s *Store) emit(w *Write, ev Event) {
	s.seq++
	w.Seq = s.seq
	w.Time = s.Now()
	ev.Seq = w.Seq
	ev.Commut = w.Commut
	s.Log = append(s.Log, w)
	for _, f := range s.OnCommit {
		f(w)
	}
	for _, f := range s.Watchers {
		f(ev)
	}
}

func (s *Store) Create(ctx writeCtx, obj client.Object) error {
	_, gvk, err := s.KeyOf(obj)
	if err != nil {
		return err
	}
	cand, err := s.canonical(obj, gvk)
	if err != nil {
		return err
	}
	if cand.GetName() == "" {
		if gn := cand.GetGenerateName(); gn != "" {
			s.nameN++
			cand.SetName(fmt.Sprintf("%s%s", gn, suffix(s.nameN)))
		} else {
			return apierrors.NewBadRequest("name or generateName is required")
		}
	}
	k := ObjKey{GK: gvk.GroupKind(), NS: cand.GetNamespace(), Name: cand.GetName()}
	if s.objs[k] != nil {
		return apierrors.NewAlreadyExists(schema.GroupResource{Group: gvk.Group, Resource: strings.ToLower(gvk.Kind) + "s"}, k.Name)
	}
	if s.Admission != nil {
		mutated, err := s.Admission("CREATE", gvk, nil, cand, ctx.Actor)
		if err != nil {
			return err
		}
		cand = mutated
	}
	s.uidN++
	cand.SetUID(types.UID(fmt.Sprintf("uid-%06d", s.uidN)))
	cand.SetCreationTimestamp(metav1.Time{Time: s.Now().Truncate(time.Second)})
	cand.SetGeneration(1)
	cand.SetDeletionTimestamp(nil)
	if hasStatusField(cand) && ctx.Actor != "setup" {
		// status cannot be set on create through the main resource
		empty := s.newEmpty(gvk)
		copyStatus(cand, empty)
	}
	s.rv++
	cand.SetResourceVersion(fmt.Sprint(s.rv))
	s.objs[k] = cand
	s.insertKey(k)
	s.emit(&Write{Actor: ctx.Actor, RecID: ctx.RecID, Verb: "create", Key: k, GVK: gvk, New: cand, Fault: ctx.Fault, Commut: ctx.Commut},
		Event{Type: EvAdded, Key: k, GVK: gvk, New: cand})
	return s.into(cand, obj, gvk)
}

func suffix(n uint64) string {
	const al = "bcdfghjklmnpqrstvwxz2456789"
	b := make([]byte, 5)
	x := n*2654435761 + 12345
	for i := range b {
		b[i] = al[x%uint64(len(al))]
		x /= uint64(len(al))
	}
	return string(b)
}

// finish applies server-side metadata rules, no-op suppression, finalizer semantics and commits.
func (s *Store) finish(ctx writeCtx, verb string, k ObjKey, gvk schema.GroupVersionKind, old, cand client.Object, status bool) (client.Object, error) {
	// server controlled metadata
	cand.SetUID(old.GetUID())
	cand.SetCreationTimestamp(old.GetCreationTimestamp())
	cand.SetDeletionTimestamp(old.GetDeletionTimestamp())
	cand.SetDeletionGracePeriodSeconds(old.GetDeletionGracePeriodSeconds())
	cand.SetNamespace(old.GetNamespace())
	cand.SetName(old.GetName())
	cand.SetGeneration(old.GetGeneration())
	cand.SetResourceVersion(old.GetResourceVersion())
	if hasStatusField(cand) {
		if status {
			// only status changes
			st := cand
			cand = old.DeepCopyObject().(client.Object)
			copyStatus(cand, st)
		} else {
			copyStatus(cand, old)
		}
	}
	if old.GetDeletionTimestamp() != nil && len(cand.GetFinalizers()) > len(old.GetFinalizers()) {
		// cannot add finalizers to an object that is being deleted
		return nil, apierrors.NewForbidden(schema.GroupResource{Group: gvk.Group, Resource: gvk.Kind}, k.Name, fmt.Errorf("object is being deleted: finalizers cannot be added"))
	}
	if !status && s.Admission != nil {
		mutated, err := s.Admission("UPDATE", gvk, old, cand, ctx.Actor)
		if err != nil {
			return nil, err
		}
		cand = mutated
		// admission cannot touch status either
		if hasStatusField(cand) {
			copyStatus(cand, old)
		}
	}
	if apiequality.Semantic.DeepEqual(old, cand) {
		s.NoopWrites++
		return old, nil
	}
	if !status && specChanged(old, cand) {
		cand.SetGeneration(old.GetGeneration() + 1)
	}
	s.rv++
	cand.SetResourceVersion(fmt.Sprint(s.rv))
	if cand.GetDeletionTimestamp() != nil && len(cand.GetFinalizers()) == 0 {
		// last finalizer removed: the object disappears
		delete(s.objs, k)
		s.removeKey(k)
		s.emit(&Write{Actor: ctx.Actor, RecID: ctx.RecID, Verb: verb, Key: k, GVK: gvk, Old: old, New: nil, Removed: true, Fault: ctx.Fault, Commut: ctx.Commut},
			Event{Type: EvDeleted, Key: k, GVK: gvk, Old: cand})
		return cand, nil
	}
	s.objs[k] = cand
	s.emit(&Write{Actor: ctx.Actor, RecID: ctx.RecID, Verb: verb, Key: k, GVK: gvk, Old: old, New: cand, Fault: ctx.Fault, Commut: ctx.Commut},
		Event{Type: EvModified, Key: k, GVK: gvk, Old: old, New: cand})
	return cand, nil
}

func (s *Store) Update(ctx writeCtx, obj client.Object, status bool) error {
	k, gvk, err := s.KeyOf(obj)
	if err != nil {
		return err
	}
	old := s.objs[k]
	gr := schema.GroupResource{Group: gvk.Group, Resource: strings.ToLower(gvk.Kind) + "s"}
	if old == nil {
		return apierrors.NewNotFound(gr, k.Name)
	}
	if rv := obj.GetResourceVersion(); rv != "" && rv != old.GetResourceVersion() {
		return apierrors.NewConflict(gr, k.Name, fmt.Errorf("the object has been modified; please apply your changes to the latest version and try again"))
	}
	if uid := obj.GetUID(); uid != "" && uid != old.GetUID() {
		return apierrors.NewConflict(gr, k.Name, fmt.Errorf("uid mismatch"))
	}
	cand, err := s.canonical(obj, gvk)
	if err != nil {
		return err
	}
	verb := "update"
	if status {
		verb = "update-status"
	}
	res, err := s.finish(ctx, verb, k, gvk, old, cand, status)
	if err != nil {
		return err
	}
	return s.into(res, obj, gvk)
}

func (s *Store) Patch(ctx writeCtx, obj client.Object, pt types.PatchType, data []byte, status bool) error {
	k, gvk, err := s.KeyOf(obj)
	if err != nil {
		return err
	}
	old := s.objs[k]
	gr := schema.GroupResource{Group: gvk.Group, Resource: strings.ToLower(gvk.Kind) + "s"}
	if old == nil {
		return apierrors.NewNotFound(gr, k.Name)
	}
	cur := s.encode(old)
	var out []byte
	switch pt {
	case types.MergePatchType:
		out, err = jsonpatch.MergePatch(cur, data)
	case types.JSONPatchType:
		var p jsonpatch.Patch
		p, err = jsonpatch.DecodePatch(data)
		if err == nil {
			out, err = p.Apply(cur)
		}
	case types.StrategicMergePatchType:
		if _, isU := old.(*unstructured.Unstructured); isU {
			return apierrors.NewGenericServerResponse(415, "PATCH", gr, k.Name, "strategic merge patch is not supported for custom resources", 0, false)
		}
		out, err = strategicpatch.StrategicMergePatch(cur, data, s.newEmpty(gvk))
	default:
		return apierrors.NewBadRequest(fmt.Sprintf("unsupported patch type %s", pt))
	}
	if err != nil {
		return apierrors.NewBadRequest(err.Error())
	}
	cand, err := s.decode(out, gvk)
	if err != nil {
		return err
	}
	if cand.GetResourceVersion() != old.GetResourceVersion() {
		return apierrors.NewConflict(gr, k.Name, fmt.Errorf("the object has been modified; please apply your changes to the latest version and try again"))
	}
	verb := "patch"
	if status {
		verb = "patch-status"
	}
	res, err := s.finish(ctx, verb, k, gvk, old, cand, status)
	if err != nil {
		return err
	}
	return s.into(res, obj, gvk)
}

func (s *Store) Delete(ctx writeCtx, obj client.Object, opts ...client.DeleteOption) error {
	k, gvk, err := s.KeyOf(obj)
	if err != nil {
		return err
	}
	old := s.objs[k]
	gr := schema.GroupResource{Group: gvk.Group, Resource: strings.ToLower(gvk.Kind) + "s"}
	if old == nil {
		return apierrors.NewNotFound(gr, k.Name)
	}
	do := client.DeleteOptions{}
	do.ApplyOptions(opts)
	if do.Preconditions != nil {
		if do.Preconditions.UID != nil && *do.Preconditions.UID != old.GetUID() {
			return apierrors.NewConflict(gr, k.Name, fmt.Errorf("uid precondition failed"))
		}
		if do.Preconditions.ResourceVersion != nil && *do.Preconditions.ResourceVersion != old.GetResourceVersion() {
			return apierrors.NewConflict(gr, k.Name, fmt.Errorf("resourceVersion precondition failed"))
		}
	}
	if len(old.GetFinalizers()) > 0 {
		if old.GetDeletionTimestamp() != nil {
			return nil // already terminating
		}
		cand := old.DeepCopyObject().(client.Object)
		now := metav1.Time{Time: s.Now().Truncate(time.Second)}
		cand.SetDeletionTimestamp(&now)
		if cand.GetGeneration() > 0 {
			cand.SetGeneration(cand.GetGeneration() + 1)
		}
		s.rv++
		cand.SetResourceVersion(fmt.Sprint(s.rv))
		s.objs[k] = cand
		s.emit(&Write{Actor: ctx.Actor, RecID: ctx.RecID, Verb: "delete", Key: k, GVK: gvk, Old: old, New: cand, Fault: ctx.Fault, Commut: ctx.Commut},
			Event{Type: EvModified, Key: k, GVK: gvk, Old: old, New: cand})
		return nil
	}
	delete(s.objs, k)
	s.removeKey(k)
	s.emit(&Write{Actor: ctx.Actor, RecID: ctx.RecID, Verb: "delete", Key: k, GVK: gvk, Old: old, Removed: true, Fault: ctx.Fault, Commut: ctx.Commut},
		Event{Type: EvDeleted, Key: k, GVK: gvk, Old: old})
	return nil
}
