package ksim

import (
	"context"
	"fmt"

	appsv1 "k8s.io/api/apps/v1"
	"k8s.io/apimachinery/pkg/runtime"
	"k8s.io/apimachinery/pkg/types"
	"k8s.io/client-go/kubernetes"
	kubefake "k8s.io/client-go/kubernetes/fake"
	clienttesting "k8s.io/client-go/testing"
	"sigs.k8s.io/controller-runtime/pkg/client"
)

// newKubeClientset returns a typed clientset whose Deployment/ReplicaSet verbs are forwarded to the
// simulated API server through the given (actor tagged, fault eligible) handle.
func newKubeClientset(h *Handle) kubernetes.Interface {
	cs := kubefake.NewSimpleClientset()
	cs.PrependReactor("*", "*", func(action clienttesting.Action) (bool, runtime.Object, error) {
		res := action.GetResource().Resource
		ns := action.GetNamespace()
		ctx := context.Background()
		newObj := func() client.Object {
			switch res {
			case "deployments":
				return &appsv1.Deployment{}
			case "replicasets":
				return &appsv1.ReplicaSet{}
			}
			return nil
		}
		if newObj() == nil {
			if res == "events" {
				return true, nil, nil
			}
			panic(fmt.Sprintf("ksim: typed clientset: unsupported resource %q", res))
		}
		switch action.GetVerb() {
		case "create":
			a := action.(clienttesting.CreateAction)
			o := a.GetObject().DeepCopyObject().(client.Object)
			o.SetNamespace(ns)
			err := h.Create(ctx, o)
			return true, o, err
		case "update":
			a := action.(clienttesting.UpdateAction)
			o := a.GetObject().DeepCopyObject().(client.Object)
			var err error
			if a.GetSubresource() == "status" {
				err = h.Status().Update(ctx, o)
			} else {
				err = h.Update(ctx, o)
			}
			return true, o, err
		case "patch":
			a := action.(clienttesting.PatchAction)
			o := newObj()
			o.SetNamespace(ns)
			o.SetName(a.GetName())
			p := client.RawPatch(a.GetPatchType(), a.GetPatch())
			var err error
			if a.GetSubresource() == "status" {
				err = h.Status().Patch(ctx, o, p)
			} else {
				err = h.Patch(ctx, o, p)
			}
			return true, o, err
		case "delete":
			a := action.(clienttesting.DeleteAction)
			o := newObj()
			o.SetNamespace(ns)
			o.SetName(a.GetName())
			return true, nil, h.Delete(ctx, o)
		case "get":
			a := action.(clienttesting.GetAction)
			o := newObj()
			// typed client reads go to the API server, not the cache
			err := h.sim.Store.Get(types.NamespacedName{Namespace: ns, Name: a.GetName()}, o)
			return true, o, err
		}
		panic(fmt.Sprintf("ksim: typed clientset: unsupported action %T on %s", action, res))
	})
	return cs
}
