package ksim

import (
	"context"
	"fmt"
	autoscalingv2 "k8s.io/api/autoscaling/v2"
	"os"
	"strings"

	kruisev1alpha1 "github.com/openkruise/kruise-api/apps/v1alpha1"
	admregv1 "k8s.io/api/admissionregistration/v1"
	appsv1 "k8s.io/api/apps/v1"
	corev1 "k8s.io/api/core/v1"
	netv1 "k8s.io/api/networking/v1"
	apierrors "k8s.io/apimachinery/pkg/api/errors"
	metav1 "k8s.io/apimachinery/pkg/apis/meta/v1"
	"k8s.io/apimachinery/pkg/apis/meta/v1/unstructured"
	"k8s.io/apimachinery/pkg/util/intstr"
	"sigs.k8s.io/controller-runtime/pkg/client"
	gatewayv1beta1 "sigs.k8s.io/gateway-api/apis/v1beta1"
	"sigs.k8s.io/yaml"

	"github.com/openkruise/rollouts/api/v1beta1"
)

// Scenario is the fully expanded description of one run (drawn from the tape).
type Scenario struct {
	Family    string     `json:"family"` // cloneset-partition | deploy-canary | deploy-partition | ...
	Name      string     `json:"name"`
	NS        string     `json:"ns"`
	Replicas  int        `json:"replicas"`
	Steps     []StepSpec `json:"steps"`
	RolloutID bool       `json:"rolloutID"`
	// RolloutIDAnno: the id is also mirrored into the annotation of the same name (the admission webhook reads the
	// annotation, the controllers read the label; the API documents the label)
	RolloutIDAnno  bool        `json:"rolloutIDAnno,omitempty"`
	Traffic        string      `json:"traffic"` // none | ingress-nginx | ...
	GraceSec       int         `json:"graceSec"`
	FailThr        string      `json:"failureThreshold,omitempty"`
	MaxSurge       string      `json:"maxSurge,omitempty"`
	MaxUnav        string      `json:"maxUnavailable,omitempty"`
	MinReady       int         `json:"minReadySeconds,omitempty"`
	HPA            bool        `json:"hpa,omitempty"` // a HorizontalPodAutoscaler targets the workload (blue-green releases disable it for their duration)
	Events         []UserEvent `json:"events"`
	AutoApprove    bool        `json:"autoApprove"`
	V2Fails        bool        `json:"v2Fails"`
	IstioDR        bool        `json:"istioDR,omitempty"`
	ForeignBackend bool        `json:"foreignBackend,omitempty"` // gateway: the stable rule also carries a backend the rollout does not own
	HeaderRegex    bool        `json:"headerRegex,omitempty"`
	HashCompat     bool        `json:"hashCompat"`
	user           *User
}

type StepSpec struct {
	Replicas string `json:"replicas"` // "2" or "40%"
	Weight   int    `json:"weight"`   // -1 = none
	Header   string `json:"header,omitempty"`
	Both     bool   `json:"both,omitempty"` // header match and weight in one step (ingress providers write both)
	PauseSec int    `json:"pauseSec"`       // -1 = manual
}

type UserEvent struct {
	Kind    string `json:"kind"`
	AtStep  int    `json:"atStep"`
	AtState string `json:"atState"`
	Arg     int    `json:"arg"`
	After   string `json:"after,omitempty"` // follow-up: fires Arg seconds after the named earlier event
	Done    bool   `json:"-"`
}

// owns: the object belongs to this scenario (same namespace, its name is the scenario name or derived from it).
func (sc *Scenario) owns(k ObjKey) bool {
	return k.NS == sc.NS && (k.Name == sc.Name || strings.HasPrefix(k.Name, sc.Name+"-"))
}

func ios(s string) intstr.IntOrString {
	if strings.HasSuffix(s, "%") {
		return intstr.FromString(s)
	}
	var n int
	fmt.Sscan(s, &n)
	return intstr.FromInt(n)
}

var webhookConfig *admregv1.MutatingWebhookConfiguration

func loadWebhookConfig() *admregv1.MutatingWebhookConfiguration {
	if webhookConfig != nil {
		return webhookConfig.DeepCopy()
	}
	data, err := os.ReadFile("config/webhook/manifests.yaml")
	if err != nil {
		panic("ksim must run with cwd=/repo: " + err.Error())
	}
	docs := strings.Split(string(data), "\n---")
	cfg := &admregv1.MutatingWebhookConfiguration{}
	for _, d := range docs {
		if strings.Contains(d, "kind: MutatingWebhookConfiguration") {
			if err := yaml.Unmarshal([]byte(d), cfg); err != nil {
				panic(err)
			}
		}
	}
	pdata, err := os.ReadFile("config/webhook/patch_manifests.yaml")
	if err != nil {
		panic(err)
	}
	patch := &admregv1.MutatingWebhookConfiguration{}
	if err := yaml.Unmarshal(pdata, patch); err != nil {
		panic(err)
	}
	for i := range cfg.Webhooks {
		for _, pw := range patch.Webhooks {
			if pw.Name == cfg.Webhooks[i].Name {
				cfg.Webhooks[i].ObjectSelector = pw.ObjectSelector
			}
		}
	}
	cfg.Name = "kruise-rollout-mutating-webhook-configuration"
	cfg.CreationTimestamp = metav1.Time{}
	webhookConfig = cfg
	return cfg.DeepCopy()
}

func (sc *Scenario) podTemplate(version string) corev1.PodTemplateSpec {
	return corev1.PodTemplateSpec{
		ObjectMeta: metav1.ObjectMeta{Labels: map[string]string{"app": sc.Name}},
		Spec:       corev1.PodSpec{Containers: []corev1.Container{{Name: "main", Image: "app:" + version}}},
	}
}

func (sc *Scenario) workloadGVK() (string, string) {
	switch {
	case strings.HasPrefix(sc.Family, "cloneset"):
		return "apps.kruise.io/v1alpha1", "CloneSet"
	case strings.HasPrefix(sc.Family, "deploy"):
		return "apps/v1", "Deployment"
	}
	panic("unknown family " + sc.Family)
}

func (sc *Scenario) buildWorkload() client.Object {
	r := int32(sc.Replicas)
	sel := &metav1.LabelSelector{MatchLabels: map[string]string{"app": sc.Name}}
	switch {
	case strings.HasPrefix(sc.Family, "cloneset"):
		cs := &kruisev1alpha1.CloneSet{ObjectMeta: metav1.ObjectMeta{Namespace: sc.NS, Name: sc.Name},
			Spec: kruisev1alpha1.CloneSetSpec{Replicas: &r, Selector: sel, Template: sc.podTemplate("v1")}}
		if sc.MaxUnav != "" {
			v := ios(sc.MaxUnav)
			cs.Spec.UpdateStrategy.MaxUnavailable = &v
		}
		if sc.MaxSurge != "" {
			v := ios(sc.MaxSurge)
			cs.Spec.UpdateStrategy.MaxSurge = &v
		}
		return cs
	default:
		d := &appsv1.Deployment{ObjectMeta: metav1.ObjectMeta{Namespace: sc.NS, Name: sc.Name},
			Spec: appsv1.DeploymentSpec{Replicas: &r, Selector: sel, Template: sc.podTemplate("v1"),
				Strategy: appsv1.DeploymentStrategy{Type: appsv1.RollingUpdateDeploymentStrategyType, RollingUpdate: &appsv1.RollingUpdateDeployment{}}}}
		ms, mu := intstr.FromString("25%"), intstr.FromString("25%")
		if sc.MaxSurge != "" {
			ms = ios(sc.MaxSurge)
		}
		if sc.MaxUnav != "" {
			mu = ios(sc.MaxUnav)
		}
		d.Spec.Strategy.RollingUpdate.MaxSurge = &ms
		d.Spec.Strategy.RollingUpdate.MaxUnavailable = &mu
		pds := int32(600)
		d.Spec.ProgressDeadlineSeconds = &pds
		d.Spec.MinReadySeconds = int32(sc.MinReady)
		return d
	}
}

func (sc *Scenario) buildRollout() *v1beta1.Rollout {
	apiV, kind := sc.workloadGVK()
	ro := &v1beta1.Rollout{ObjectMeta: metav1.ObjectMeta{Namespace: sc.NS, Name: sc.Name + "-ro"},
		Spec: v1beta1.RolloutSpec{WorkloadRef: v1beta1.ObjectRef{APIVersion: apiV, Kind: kind, Name: sc.Name}}}
	var steps []v1beta1.CanaryStep
	for _, st := range sc.Steps {
		v := ios(st.Replicas)
		cs := v1beta1.CanaryStep{Replicas: &v}
		if st.PauseSec >= 0 {
			d := int32(st.PauseSec)
			cs.Pause.Duration = &d
		}
		if st.Weight >= 0 {
			w := fmt.Sprintf("%d%%", st.Weight)
			cs.Traffic = &w
		}
		steps = append(steps, cs)
	}
	var thr *intstr.IntOrString
	if sc.FailThr != "" {
		v := ios(sc.FailThr)
		thr = &v
	}
	var trs []v1beta1.TrafficRoutingRef
	if sc.Traffic != "" && sc.Traffic != "none" {
		tr := v1beta1.TrafficRoutingRef{Service: sc.Name + "-svc", GracePeriodSeconds: int32(sc.GraceSec)}
		switch {
		case strings.HasPrefix(sc.Traffic, "ingress-"):
			tr.Ingress = &v1beta1.IngressTrafficRouting{Name: sc.Name + "-ing", ClassType: strings.TrimPrefix(sc.Traffic, "ingress-")}
		case sc.Traffic == "gateway":
			n := sc.Name + "-route"
			tr.Gateway = &v1beta1.GatewayTrafficRouting{HTTPRouteName: &n}
		case sc.Traffic == "custom-cm":
			tr.CustomNetworkRefs = []v1beta1.ObjectRef{{APIVersion: "example.io/v1", Kind: "TrafficTag", Name: sc.Name + "-tag"}}
		case sc.Traffic == "istio":
			tr.CustomNetworkRefs = []v1beta1.ObjectRef{{APIVersion: "networking.istio.io/v1alpha3", Kind: "VirtualService", Name: sc.Name + "-vs"}}
			if sc.IstioDR {
				tr.CustomNetworkRefs = append(tr.CustomNetworkRefs, v1beta1.ObjectRef{APIVersion: "networking.istio.io/v1alpha3", Kind: "DestinationRule", Name: sc.Name + "-dr"})
			}
		}
		trs = append(trs, tr)
	}
	for i, st := range sc.Steps {
		if st.Header != "" {
			ht := gatewayv1beta1.HeaderMatchExact
			val := "yes"
			if sc.HeaderRegex && i%2 == 0 {
				ht = gatewayv1beta1.HeaderMatchRegularExpression
				val = "^1[0-9]*$"
			}
			steps[i].Matches = []v1beta1.HttpRouteMatch{{Headers: []gatewayv1beta1.HTTPHeaderMatch{{Type: &ht, Name: gatewayv1beta1.HTTPHeaderName(st.Header), Value: val}}}}
			if !st.Both {
				steps[i].Traffic = nil
			}
		}
	}
	if strings.HasSuffix(sc.Family, "bluegreen") {
		ro.Spec.Strategy.BlueGreen = &v1beta1.BlueGreenStrategy{Steps: steps, FailureThreshold: thr, TrafficRoutings: trs}
	} else {
		ro.Spec.Strategy.Canary = &v1beta1.CanaryStrategy{Steps: steps, FailureThreshold: thr, TrafficRoutings: trs,
			EnableExtraWorkloadForCanary: sc.Family == "deploy-canary"}
	}
	return ro
}

// setupCluster creates the pre-existing cluster state and lets the environment converge.
func (s *Sim) setupCluster(sc *Scenario, first bool) {
	ctx := context.Background()
	h := s.NewHandle("setup", nil, false)
	must := func(err error) {
		if err != nil {
			panic(fmt.Sprintf("ksim setup: %v", err))
		}
	}
	if first {
		must(h.Create(ctx, loadWebhookConfig()))
	}
	must(h.Create(ctx, sc.buildWorkload()))
	if sc.HPA {
		must(h.Create(ctx, sc.buildHPA()))
	}
	for _, o := range sc.buildNetwork() {
		if err := h.Create(ctx, o); err != nil && !apierrors.IsAlreadyExists(err) {
			must(err)
		}
	}
}

// buildHPA: the user's autoscaler; min == max == replicas, so it never resizes the workload itself
func (sc *Scenario) buildHPA() client.Object {
	apiV, kind := sc.workloadGVK()
	n := int32(sc.Replicas)
	return &autoscalingv2.HorizontalPodAutoscaler{ObjectMeta: metav1.ObjectMeta{Namespace: sc.NS, Name: sc.Name + "-hpa"},
		Spec: autoscalingv2.HorizontalPodAutoscalerSpec{ScaleTargetRef: autoscalingv2.CrossVersionObjectReference{APIVersion: apiV, Kind: kind, Name: sc.Name},
			MinReplicas: &n, MaxReplicas: n}}
}

// buildNetwork: the user's Service and gateway objects (several rules, foreign backends, extra annotations).
func (sc *Scenario) buildNetwork() []client.Object {
	if sc.Traffic == "" || sc.Traffic == "none" {
		return nil
	}
	svcName := sc.Name + "-svc"
	svc := &corev1.Service{ObjectMeta: metav1.ObjectMeta{Namespace: sc.NS, Name: svcName},
		Spec: corev1.ServiceSpec{Selector: map[string]string{"app": sc.Name}, Ports: []corev1.ServicePort{{Name: "http", Port: 80}}}}
	other := &corev1.Service{ObjectMeta: metav1.ObjectMeta{Namespace: sc.NS, Name: "other-svc"},
		Spec: corev1.ServiceSpec{Selector: map[string]string{"app": "other"}, Ports: []corev1.ServicePort{{Name: "http", Port: 80}}}}
	out := []client.Object{svc, other}
	switch {
	case strings.HasPrefix(sc.Traffic, "ingress-"):
		pt := netv1.PathTypePrefix
		be := func(name string) netv1.IngressBackend {
			return netv1.IngressBackend{Service: &netv1.IngressServiceBackend{Name: name, Port: netv1.ServiceBackendPort{Number: 80}}}
		}
		ing := &netv1.Ingress{ObjectMeta: metav1.ObjectMeta{Namespace: sc.NS, Name: sc.Name + "-ing", Annotations: map[string]string{"kubernetes.io/ingress.class": "nginx", "user/anno": "keep"}},
			Spec: netv1.IngressSpec{Rules: []netv1.IngressRule{
				{Host: "a.example.com", IngressRuleValue: netv1.IngressRuleValue{HTTP: &netv1.HTTPIngressRuleValue{Paths: []netv1.HTTPIngressPath{
					{Path: "/", PathType: &pt, Backend: be(svcName)}, {Path: "/other", PathType: &pt, Backend: be("other-svc")}}}}},
				{Host: "b.example.com", IngressRuleValue: netv1.IngressRuleValue{HTTP: &netv1.HTTPIngressRuleValue{Paths: []netv1.HTTPIngressPath{
					{Path: "/o", PathType: &pt, Backend: be("other-svc")}}}}},
			}}}
		out = append(out, ing)
	case sc.Traffic == "gateway":
		kind := gatewayv1beta1.Kind("Service")
		port := gatewayv1beta1.PortNumber(80)
		ref := func(name string, w *int32) gatewayv1beta1.HTTPBackendRef {
			return gatewayv1beta1.HTTPBackendRef{BackendRef: gatewayv1beta1.BackendRef{BackendObjectReference: gatewayv1beta1.BackendObjectReference{Kind: &kind, Name: gatewayv1beta1.ObjectName(name), Port: &port}, Weight: w}}
		}
		pm := gatewayv1beta1.PathMatchPathPrefix
		p1, p2 := "/api", "/other"
		stableRefs := []gatewayv1beta1.HTTPBackendRef{ref(svcName, nil)}
		if sc.ForeignBackend {
			w90, w10 := int32(90), int32(10)
			stableRefs = []gatewayv1beta1.HTTPBackendRef{ref(svcName, &w90), ref("other-svc", &w10)}
		}
		route := &gatewayv1beta1.HTTPRoute{ObjectMeta: metav1.ObjectMeta{Namespace: sc.NS, Name: sc.Name + "-route"},
			Spec: gatewayv1beta1.HTTPRouteSpec{Rules: []gatewayv1beta1.HTTPRouteRule{
				{Matches: []gatewayv1beta1.HTTPRouteMatch{{Path: &gatewayv1beta1.HTTPPathMatch{Type: &pm, Value: &p1}}}, BackendRefs: stableRefs},
				{Matches: []gatewayv1beta1.HTTPRouteMatch{{Path: &gatewayv1beta1.HTTPPathMatch{Type: &pm, Value: &p2}}}, BackendRefs: []gatewayv1beta1.HTTPBackendRef{ref("other-svc", nil)}},
			}}}
		out = append(out, route)
	case sc.Traffic == "custom-cm":
		// a user-provided custom resource with a well-behaved script from the rollout ConfigMap
		tag := &unstructured.Unstructured{Object: map[string]interface{}{
			"apiVersion": "example.io/v1", "kind": "TrafficTag",
			"metadata": map[string]interface{}{"namespace": sc.NS, "name": sc.Name + "-tag", "labels": map[string]interface{}{"team": "web"}},
			"spec":     map[string]interface{}{"stable": svcName, "rules": []interface{}{map[string]interface{}{"to": svcName, "percent": int64(100)}}},
		}}
		cm := &corev1.ConfigMap{ObjectMeta: metav1.ObjectMeta{Namespace: "kruise-rollout", Name: "kruise-rollout-configuration"},
			Data: map[string]string{"lua.traffic.routing.TrafficTag.example.io": customTagScript}}
		out = append(out, tag, cm)
	case sc.Traffic == "istio":
		vs := &unstructured.Unstructured{Object: map[string]interface{}{
			"apiVersion": "networking.istio.io/v1alpha3", "kind": "VirtualService",
			"metadata": map[string]interface{}{"namespace": sc.NS, "name": sc.Name + "-vs", "labels": map[string]interface{}{"team": "web"}},
			"spec": map[string]interface{}{
				"hosts": []interface{}{svcName},
				"http": []interface{}{
					map[string]interface{}{"name": "other", "match": []interface{}{map[string]interface{}{"uri": map[string]interface{}{"prefix": "/other"}}},
						"route": []interface{}{map[string]interface{}{"destination": map[string]interface{}{"host": "other-svc"}}}},
					map[string]interface{}{"name": "main", "route": []interface{}{map[string]interface{}{"destination": map[string]interface{}{"host": svcName}}}},
				},
			},
		}}
		out = append(out, vs)
	}
	return out
}

// customTagScript: a well-behaved custom provider script: everything is computed from the original object
// (obj.data) and the current step; it writes spec, a label and an annotation.
const customTagScript = `
local spec = obj.data.spec
local labels = obj.data.labels or {}
local annotations = obj.data.annotations or {}
if obj.matches and next(obj.matches) ~= nil then
    spec.canary = { to = obj.canaryService, match = "header" }
    labels["canary-mode"] = "match"
    labels["canary-weight"] = nil
else
    local w = obj.canaryWeight
    if w == -1 then w = 100 end
    spec.canary = { to = obj.canaryService, match = "weight" }
    labels["canary-mode"] = "weight"
    labels["canary-weight"] = tostring(w)
end
annotations["canary-service"] = obj.canaryService
return { spec = spec, labels = labels, annotations = annotations }
`
