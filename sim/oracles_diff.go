package ksim

import (
	"context"
	"encoding/json"
	"fmt"
	"reflect"
	"strings"

	netv1 "k8s.io/api/networking/v1"
	"k8s.io/apimachinery/pkg/apis/meta/v1/unstructured"
	"k8s.io/apimachinery/pkg/types"
	"sigs.k8s.io/controller-runtime/pkg/client"
	gatewayv1beta1 "sigs.k8s.io/gateway-api/apis/v1beta1"

	"github.com/openkruise/rollouts/api/v1alpha1"
	"github.com/openkruise/rollouts/api/v1beta1"
	"github.com/openkruise/rollouts/pkg/trafficrouting/network"
	custom "github.com/openkruise/rollouts/pkg/trafficrouting/network/customNetworkProvider"
	"github.com/openkruise/rollouts/pkg/trafficrouting/network/gateway"
	"github.com/openkruise/rollouts/pkg/trafficrouting/network/ingress"
)

// diffOracle decides the history-independence clauses of C13 / C14 / C15 differentially: when a step
// reports routed, the live gateway objects must equal what the SAME real provider code produces when it
// is run from scratch on the user's original objects for that step alone.  No expected value is hard-coded.
type diffOracle struct {
	baseOracle
	sc *Scenario
	tr *trafficOracle
}

func (o *diffOracle) Name() string { return "diff" }

func (o *diffOracle) property() string {
	switch {
	case strings.HasPrefix(o.sc.Traffic, "ingress-"):
		return "C14"
	case o.sc.Traffic == "gateway":
		return "C13"
	}
	return "C15"
}

// freshProvider builds the provider over a scratch store that holds only the user's original network objects.
func (o *diffOracle) freshProvider(s *Sim, ro *v1beta1.Rollout) (network.NetworkProvider, *Sim, error) {
	scratch := &Sim{T: ReplayTape(nil), Stats: map[string]int{}, Probes: map[string]int{}}
	scratch.Store = NewStore(simScheme, s.Now)
	scratch.mapper = s.mapper
	h := scratch.NewHandle("scratch", nil, false)
	seed := scratch.NewHandle("setup", nil, false)
	for _, k := range sortedObjKeys(o.tr.orig) {
		obj := o.tr.orig[k].DeepCopyObject().(client.Object)
		obj.SetResourceVersion("")
		obj.SetUID("")
		if err := seed.Create(context.Background(), obj); err != nil {
			return nil, nil, err
		}
	}
	trs := ro.Spec.Strategy.GetTrafficRouting()
	if len(trs) == 0 {
		return nil, nil, fmt.Errorf("no traffic routing")
	}
	t := trs[0]
	key := fmt.Sprintf("Rollout(%s/%s)", ro.Namespace, ro.Name)
	owner := v1beta1.SchemeGroupVersion.WithKind("Rollout")
	_ = owner
	switch {
	case t.Ingress != nil:
		p, err := ingress.NewIngressTrafficRouting(h, ingress.Config{Key: key, Namespace: ro.Namespace, CanaryService: o.tr.canarySvc, StableService: o.tr.stableSvc, TrafficConf: t.Ingress})
		return p, scratch, err
	case t.Gateway != nil:
		p, err := gateway.NewGatewayTrafficRouting(h, gateway.Config{Key: key, Namespace: ro.Namespace, CanaryService: o.tr.canarySvc, StableService: o.tr.stableSvc, TrafficConf: t.Gateway})
		return p, scratch, err
	case t.CustomNetworkRefs != nil:
		p, err := custom.NewCustomController(h, custom.Config{Key: key, RolloutNs: ro.Namespace, CanaryService: o.tr.canarySvc, StableService: o.tr.stableSvc, TrafficConf: t.CustomNetworkRefs})
		return p, scratch, err
	}
	return nil, nil, fmt.Errorf("unknown provider")
}

func sortedObjKeys(m map[ObjKey]client.Object) []ObjKey {
	var ks []ObjKey
	for k := range m {
		ks = insertKeySorted(ks, k)
	}
	return ks
}

func (o *diffOracle) OnWrite(s *Sim, w *Write) {
	if !o.sc.owns(w.Key) || o.sc.Traffic == "" || w.Key.GK != gkRollout || w.Actor != "rollout-ctrl" || w.Old == nil || w.New == nil {
		return
	}
	rd := asReadRollout(s.cur, w.Key)
	nr := w.New.(*v1beta1.Rollout)
	if rd == nil {
		return
	}
	rs, ns := rd.Status.GetSubStatus(), nr.Status.GetSubStatus()
	if rs == nil || ns == nil || rs.CurrentStepIndex != ns.CurrentStepIndex || rs.CurrentStepState != v1beta1.CanaryStepStateTrafficRouting ||
		ns.CurrentStepState != v1beta1.CanaryStepStateMetricsAnalysis || progressingReason(nr) != v1alpha1.ProgressingReasonInRolling {
		return
	}
	steps := rd.Spec.Strategy.GetSteps()
	k := int(rs.CurrentStepIndex)
	if k < 1 || k > len(steps) {
		return
	}
	strategy := steps[k-1].TrafficRoutingStrategy
	if strategy.Traffic == nil && len(strategy.Matches) == 0 {
		return
	}
	prop := o.property()
	fam := o.sc.Family + "/" + o.sc.Traffic
	p, scratch, err := o.freshProvider(s, rd)
	if err != nil || p == nil {
		return
	}
	done := false
	for i := 0; i < 6 && !done; i++ {
		st := strategy.DeepCopy()
		done, err = p.EnsureRoutes(context.Background(), st)
		if err != nil {
			return
		}
	}
	if !done {
		s.Violate("C07", "L3-fixed-point", "L3/"+fam, w.Seq, "fresh execution of the provider for step %d does not reach a fixed point within 6 calls", k)
		return
	}
	s.probe("diff.fresh-executions")
	// compare every gateway object of the provider
	for _, gk := range o.tr.gatewayKeys() {
		live := s.Store.Peek(gk)
		fresh := scratch.Store.Peek(gk)
		if d := o.differ(live, fresh, strategy.Matches); d != "" {
			s.Violate(prop, "H1-history-independent", "H1/"+fam+o.tr.staleRouteRead(s), w.Seq, "step %d reported routed but %s differs from a fresh run of the same provider on the user's original objects for this step alone: %s", k, gk, d)
		}
	}
	// I3 / frame: the user's own objects other than the managed ones are never modified
	for ok, orig := range o.tr.orig {
		managed := false
		for _, gk := range o.tr.gatewayKeys() {
			if gk == ok {
				managed = true
			}
		}
		if managed || ok.GK == gkService || ok.GK == gkConfigMap {
			continue
		}
		if live := s.Store.Peek(ok); live == nil || !reflect.DeepEqual(specJSON(live), specJSON(orig)) || !reflect.DeepEqual(live.GetAnnotations(), orig.GetAnnotations()) {
			s.Violate(prop, "H2-frame", "H2/"+fam+"/"+ok.GK.Kind, w.Seq, "user object %s was modified during the rollout", ok)
		}
	}
}

func specJSON(o client.Object) string {
	var m map[string]interface{}
	b, _ := json.Marshal(o)
	_ = json.Unmarshal(b, &m)
	b, _ = json.Marshal(m["spec"])
	return string(b)
}

func (o *diffOracle) differ(live, fresh client.Object, strategyMatches []v1beta1.HttpRouteMatch) string {
	if live == nil || fresh == nil {
		if live == nil && fresh == nil {
			return ""
		}
		return fmt.Sprintf("live exists=%v fresh exists=%v", live != nil, fresh != nil)
	}
	switch l := live.(type) {
	case *netv1.Ingress:
		f := fresh.(*netv1.Ingress)
		if !reflect.DeepEqual(l.Annotations, f.Annotations) {
			return fmt.Sprintf("annotations live=%v fresh=%v", l.Annotations, f.Annotations)
		}
		if !reflect.DeepEqual(l.Spec, f.Spec) {
			return fmt.Sprintf("spec live=%s fresh=%s", dumpJSON(l.Spec), dumpJSON(f.Spec))
		}
	case *gatewayv1beta1.HTTPRoute:
		f := fresh.(*gatewayv1beta1.HTTPRoute).DeepCopy()
		l = l.DeepCopy()
		one := int32(1)
		for _, hr := range []*gatewayv1beta1.HTTPRoute{l, f} {
			for i := range hr.Spec.Rules {
				for j := range hr.Spec.Rules[i].BackendRefs {
					if hr.Spec.Rules[i].BackendRefs[j].Weight == nil {
						hr.Spec.Rules[i].BackendRefs[j].Weight = &one // Gateway API: an unspecified weight is 1
					}
					if n := string(hr.Spec.Rules[i].BackendRefs[j].Name); len(strategyMatches) > 0 && (n == o.tr.stableSvc || n == o.tr.canarySvc) {
						// match step: the weight of the stable backend is not part of the step (documented: it is reset, the original value is not kept)
						hr.Spec.Rules[i].BackendRefs[j].Weight = &one
					}
				}
			}
		}
		if !reflect.DeepEqual(l.Spec.Rules, f.Spec.Rules) {
			return fmt.Sprintf("rules live=%s fresh=%s", dumpJSON(l.Spec.Rules), dumpJSON(f.Spec.Rules))
		}
	case *unstructured.Unstructured:
		f := fresh.(*unstructured.Unstructured)
		if dumpJSON(l.Object["spec"]) != dumpJSON(f.Object["spec"]) {
			return fmt.Sprintf("spec live=%s fresh=%s", dumpJSON(l.Object["spec"]), dumpJSON(f.Object["spec"]))
		}
		if !reflect.DeepEqual(l.GetLabels(), f.GetLabels()) || !reflect.DeepEqual(l.GetAnnotations(), f.GetAnnotations()) {
			return fmt.Sprintf("labels/annotations live=%v/%v fresh=%v/%v", l.GetLabels(), l.GetAnnotations(), f.GetLabels(), f.GetAnnotations())
		}
	}
	return ""
}

var _ = types.NamespacedName{}
