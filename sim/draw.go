package ksim

import (
	"fmt"
	"os"
	"strings"
	"time"
)

// DrawScenario draws the scenario and the run configuration from the tape, swarm style:
// which features are enabled at all is drawn first, then their parameters.
// By convention the first alternative of every choice is the simplest one.
func DrawScenario(t *Tape, property string) (*Scenario, Config) {
	sc := &Scenario{NS: "ns1", Name: "web", AutoApprove: true}
	families := []string{"cloneset-partition", "deploy-canary", "deploy-partition", "deploy-bluegreen"}
	sc.Family = families[t.Next(len(families))]
	sizes := []int{5, 1, 2, 3, 4, 7, 10}
	maxSteps := 4
	if thoroughTier() {
		// the thorough tier also widens the scenario space: larger workloads, longer plans, more disturbances
		sizes = append(sizes, 13, 20, 30)
		maxSteps = 6
	}
	sc.Replicas = sizes[t.Next(len(sizes))]
	nSteps := 1 + t.Next(maxSteps)
	percent := t.Next(2) == 1
	prev := 0
	for i := 0; i < nSteps; i++ {
		st := StepSpec{Weight: -1, PauseSec: -1}
		if percent {
			lo := prev
			if lo < 1 {
				lo = 1
			}
			v := lo + t.Next(101-lo)
			if i == nSteps-1 && t.Next(2) == 0 {
				v = 100
			}
			// bias to round values
			if t.Next(2) == 0 {
				v = (v/10 + 1) * 10
				if v > 100 {
					v = 100
				}
				if v < lo {
					v = lo
				}
			}
			prev = v
			st.Replicas = fmt.Sprintf("%d%%", v)
		} else {
			lo := prev
			if lo < 1 {
				lo = 1
			}
			hi := sc.Replicas + 1
			if hi < lo {
				hi = lo
			}
			v := lo + t.Next(hi-lo+1)
			prev = v
			st.Replicas = fmt.Sprint(v)
		}
		switch t.Next(3) {
		case 0:
			st.PauseSec = -1
		case 1:
			st.PauseSec = 0
		case 2:
			st.PauseSec = 1 + t.Next(60)
		}
		sc.Steps = append(sc.Steps, st)
	}
	sc.RolloutID = t.Next(3) == 1
	sc.RolloutIDAnno = sc.RolloutID && t.Next(2) == 1
	// traffic routing
	switch t.Pick(3, 2, 2, 2, 1, 1) {
	case 4:
		sc.Traffic = "ingress-aliyun-alb"
	case 5:
		sc.Traffic = "custom-cm"
	case 1:
		// the nginx family of shipped ingress scripts: nginx, higress and mse write the same canary annotations
		sc.Traffic = []string{"ingress-nginx", "ingress-nginx", "ingress-higress", "ingress-mse"}[t.Next(4)]
	case 2:
		sc.Traffic = "gateway"
	case 3:
		sc.Traffic = "istio"
	}
	if sc.Traffic == "gateway" {
		sc.ForeignBackend = t.Next(3) == 1
	}
	if sc.Traffic != "" {
		sc.HeaderRegex = t.Next(3) == 1
		sc.GraceSec = []int{0, 1, 3, 5}[t.Next(4)]
		partition := sc.Family != "deploy-canary"
		for i := range sc.Steps {
			st := &sc.Steps[i]
			if partition && strings.HasSuffix(st.Replicas, "%") {
				p := 0
				fmt.Sscanf(st.Replicas, "%d%%", &p)
				if p > 50 {
					continue // partition style: percentage steps above 50% cannot carry traffic
				}
			}
			switch t.Pick(2, 3, 1) {
			case 1:
				st.Weight = 1 + t.Next(100)
				if t.Next(3) == 0 {
					st.Weight = []int{5, 10, 20, 50, 100}[t.Next(5)]
				}
			case 2:
				st.Header = "x-canary"
			}
		}
	}
	drawEvents(t, sc)
	sc.HashCompat = t.Next(2) == 1

	cfg := Config{MaxSteps: 40000, MaxSimTime: 2 * time.Hour, PreemptPermyr: 2000}
	if thoroughTier() {
		cfg.MaxSteps, cfg.MaxSimTime = 160000, 4*time.Hour
	}
	cfg.Interleave = t.Next(2) == 1
	switch t.Next(3) {
	case 0:
		cfg.CacheLagMaxMs = 0
	case 1:
		cfg.CacheLagMaxMs = 50
	case 2:
		cfg.CacheLagMaxMs = 2500
	}
	cfg.EnvDelayMaxMs = []int{0, 200, 3000}[t.Next(3)]
	cfg.ReadyDelayMaxS = []int{0, 2, 20}[t.Next(3)]
	cfg.GCLagMaxMs = []int{0, 1000, 30000}[t.Next(3)]
	applyProfile(t, property, sc, &cfg)
	return sc, cfg
}

// applyProfile: per-property scenario weights and fault mix.  The set of active oracles never depends on it.
func applyProfile(t *Tape, property string, sc *Scenario, cfg *Config) {
	if os.Getenv("KSIM_FAMILY") != "" {
		sc.Family = os.Getenv("KSIM_FAMILY") // exploration only
	}
	switch property {
	case "C12":
		sc.RolloutID = true
		if t.Next(2) == 1 {
			sc.Events = append(sc.Events, UserEvent{Kind: "hostile-pod-labels", AtStep: 1 + t.Next(len(sc.Steps)), AtState: stepStates[1+t.Next(5)], Arg: t.Next(1000)})
		}
	case "C17":
		sc.Family = "deploy-partition"
		for i := range sc.Steps {
			if sc.Traffic != "" && strings.HasSuffix(sc.Steps[i].Replicas, "%") {
				p := 0
				fmt.Sscanf(sc.Steps[i].Replicas, "%d%%", &p)
				if p > 50 {
					sc.Steps[i].Weight, sc.Steps[i].Header = -1, ""
				}
			}
		}
		sc.MaxSurge = []string{"", "0", "1", "50%", "100%"}[t.Next(5)]
		sc.MaxUnav = []string{"", "0", "1", "50%"}[t.Next(4)]
		if sc.MaxSurge == "0" && sc.MaxUnav == "0" {
			sc.MaxUnav = "1"
		}
		// ready-but-not-yet-available windows
		sc.MinReady = []int{0, 0, 5, 30}[t.Next(4)]
	case "C09":
		switch t.Next(4) {
		case 0:
			sc.Events = append(sc.Events, UserEvent{Kind: "shrink-plan-late"}, UserEvent{Kind: "delete-rollout-late"})
		case 1:
			// invalid edits at arbitrary instants, also right after a deletion request (finalizer still there)
			sc.Events = append(sc.Events, UserEvent{Kind: "invalid-spec-edit", AtStep: 1 + t.Next(len(sc.Steps)), AtState: stepStates[t.Next(len(stepStates))], Arg: t.Next(1000)})
		case 2:
			sc.Events = append(sc.Events, UserEvent{Kind: "delete-rollout", AtStep: 1 + t.Next(len(sc.Steps)), AtState: stepStates[t.Next(len(stepStates))]},
				UserEvent{Kind: "invalid-spec-edit", After: "delete-rollout", Arg: t.Next(1000)})
		}
	case "C02":
		if t.Next(4) == 0 {
			// pause in the narrow window after the last step completed
			sc.Events = append(sc.Events, UserEvent{Kind: "pause", AtStep: len(sc.Steps), AtState: "Completed"}, UserEvent{Kind: "resume", After: "pause", Arg: 5 + t.Next(30)})
		}
		// more cursor manipulation: jumps (also before the BatchRelease exists), pauses, plan edits
		if t.Next(2) == 1 {
			st := stepStates[t.Next(3)]
			sc.Events = append([]UserEvent{{Kind: "jump", AtStep: 1 + t.Next(len(sc.Steps)), AtState: st, Arg: 1 + t.Next(len(sc.Steps))}}, sc.Events...)
		}
	case "C11":
		if t.Next(2) == 1 {
			sc.Events = append([]UserEvent{{Kind: "edit-plan-current", AtStep: 1 + t.Next(len(sc.Steps)), AtState: stepStates[1+t.Next(5)], Arg: t.Next(1000)}}, sc.Events...)
		}
	case "C10", "C04", "C13", "C14", "C15", "C03":
		force := map[string]string{"C13": "gateway", "C14": []string{"ingress-nginx", "ingress-aliyun-alb", "ingress-higress", "ingress-mse"}[t.Next(4)], "C15": []string{"istio", "custom-cm"}[t.Next(2)]}[property]
		if force != "" && sc.Traffic != force {
			sc.Traffic = ""
		}
		if sc.Traffic == "" {
			sc.Traffic = []string{"ingress-nginx", "gateway", "istio"}[t.Next(3)]
			if force != "" {
				sc.Traffic = force
			}
			sc.GraceSec = []int{0, 1, 3, 5}[t.Next(4)]
			for i := range sc.Steps {
				if t.Next(3) != 0 && !(sc.Family != "deploy-canary" && pctOver(sc.Steps[i].Replicas, 50)) {
					if t.Next(3) == 0 {
						sc.Steps[i].Header = "x-canary"
					} else {
						sc.Steps[i].Weight = 1 + t.Next(100)
					}
				}
			}
		}
		if (property == "C14" || property == "C03") && strings.HasPrefix(sc.Traffic, "ingress-") {
			// ingress providers can carry a weight and a header match in one step; the step after it often keeps one of the
			// two and drops the other (the desired annotations become a subset of what is there)
			for i := range sc.Steps {
				if sc.Steps[i].Header != "" && t.Next(2) == 1 {
					sc.Steps[i].Both = true
					sc.Steps[i].Weight = []int{5, 10, 20, 50}[t.Next(4)]
					if i+1 < len(sc.Steps) && sc.Steps[i+1].Weight >= 0 && sc.Steps[i+1].Header == "" && t.Next(2) == 1 {
						sc.Steps[i+1].Weight = sc.Steps[i].Weight
					}
				}
			}
		}
		if force != "" {
			// step orders other than the plan's: jumps between traffic steps
			if t.Next(2) == 1 {
				sc.Events = append([]UserEvent{{Kind: "jump", AtStep: 1 + t.Next(len(sc.Steps)), AtState: stepStates[2+t.Next(4)], Arg: 1 + t.Next(len(sc.Steps))}}, sc.Events...)
			}
		} else if t.Next(2) == 1 {
			k := []string{"release-v3", "rollback"}[t.Next(2)]
			sc.Events = append([]UserEvent{{Kind: k, AtStep: 1 + t.Next(len(sc.Steps)), AtState: stepStates[t.Next(len(stepStates))]}}, sc.Events...)
		} else if property == "C10" && len(sc.Steps) > 1 && t.Next(2) == 1 {
			// the cancellation meets a cursor that has just been moved: a jump (often back to step one) from a later
			// step, and the rollback / newer release a moment after it
			to := 1
			if t.Next(3) == 0 {
				to = 1 + t.Next(len(sc.Steps))
			}
			k := []string{"rollback", "release-v3"}[t.Next(2)]
			sc.Events = []UserEvent{{Kind: "jump", AtStep: 2 + t.Next(len(sc.Steps)-1), AtState: stepStates[2+t.Next(4)], Arg: to},
				{Kind: k, After: "jump", Arg: t.Next(4)}}
		}
	case "C08":
		for i, n := 0, 1+t.Next(3); i < n; i++ {
			kinds := []string{"touch-annotation", "unpause-workload", "scale", "reissue-rollout-id", "release-v3"}
			ev := UserEvent{Kind: kinds[t.Next(len(kinds))], AtStep: 1 + t.Next(len(sc.Steps)), AtState: stepStates[t.Next(len(stepStates))], Arg: 1 + t.Next(10)}
			sc.Events = append(sc.Events, ev)
		}
	}
	switch property {
	case "C12", "C17", "C08":
		cfg.PodFlap = []int{0, 20, 60}[t.Next(3)]
		cfg.PodKill = []int{0, 10, 40}[t.Next(3)]
		cfg.FaultsStopAt = 400 + t.Next(3000)
	}
	if property == "C17" && t.Next(3) == 0 {
		sc.Events = append(sc.Events, UserEvent{Kind: "release-v3", AtStep: 1 + t.Next(len(sc.Steps)), AtState: stepStates[1+t.Next(5)]})
	}
	// C16 in the loop: a broken custom provider script for a while (operator error), put right later
	if (property == "C15" || property == "C19") && sc.Traffic == "custom-cm" && t.Next(3) == 1 {
		sc.Events = append(sc.Events, UserEvent{Kind: "hostile-script", AtStep: 1 + t.Next(len(sc.Steps)), AtState: stepStates[t.Next(len(stepStates))], Arg: t.Next(1000)},
			UserEvent{Kind: "restore-script", After: "hostile-script", Arg: 5 + t.Next(40)})
	}
	if strings.HasSuffix(sc.Family, "bluegreen") && (property == "C05" || property == "C06" || property == "C18") {
		sc.HPA = t.Next(2) == 1
	}
	faulty := false
	switch property {
	case "C06", "C18", "C19":
		faulty = true
	case "C07":
		faulty = t.Next(3) == 1
	}
	if property == "C18" {
		// deletion requested at every phase
		ev := UserEvent{Kind: "delete-rollout", AtStep: 1 + t.Next(len(sc.Steps)), AtState: stepStates[t.Next(len(stepStates))]}
		keep := sc.Events[:0]
		for _, e := range sc.Events {
			if e.Kind != "delete-rollout" && e.Kind != "disable" && e.Kind != "enable" && t.Next(2) == 0 {
				keep = append(keep, e)
			}
		}
		sc.Events = append(keep, ev)
		// sometimes the BatchRelease object itself is deleted under the controllers' feet
		switch t.Next(6) {
		case 1:
			sc.Events = append([]UserEvent{{Kind: "delete-batchrelease-claim-window"}}, sc.Events...)
		case 2:
			sc.Events = append([]UserEvent{{Kind: "delete-batchrelease", AtStep: 1 + t.Next(len(sc.Steps)), AtState: stepStates[t.Next(len(stepStates))]}}, sc.Events...)
		}
	}
	if property == "C06" && t.Next(3) != 0 {
		// most crash/fault runs use an undisturbed release so that the final state is comparable with the fault-free one
		sc.Events = nil
	}
	if !faulty {
		return
	}
	// swarm: each fault kind is enabled or not per run
	pick := func(rates ...int) int { return rates[t.Next(len(rates))] }
	cfg.ErrBefore = pick(0, 150, 400)
	cfg.ErrAfter = pick(0, 100, 300)
	cfg.Conflict = pick(0, 300)
	cfg.CrashAtCall = pick(0, 60, 200)
	cfg.EventDup = pick(0, 300)
	cfg.ClockJump = pick(0, 0, 5)
	cfg.PodFlap = pick(0, 0, 20)
	cfg.PodKill = pick(0, 0, 10)
	cfg.FaultsStopAt = 400 + t.Next(3000)
}

var stepStates = []string{"BeforeStepUpgrade", "StepUpgrade", "StepTrafficRouting", "StepMetricsAnalysis", "StepPaused", "StepReady"}

// drawEvents: 0..2 scripted disturbances, each triggered when the rollout reaches a drawn (step, sub-state).
func drawEvents(t *Tape, sc *Scenario) {
	n := t.Pick(5, 4, 2)
	if thoroughTier() {
		n = t.Pick(3, 4, 3, 2)
	}
	kinds := []string{"scale", "rollback", "release-v3", "pause", "jump", "edit-plan", "disable", "delete-rollout", "hostile-jump", "unpause-workload", "rollback-early", "release-v3-early", "reissue-rollout-id"}
	for i := 0; i < n; i++ {
		ev := UserEvent{Kind: kinds[t.Next(len(kinds))]}
		ev.AtStep = 1 + t.Next(len(sc.Steps))
		ev.AtState = stepStates[t.Next(len(stepStates))]
		switch ev.Kind {
		case "scale":
			ev.Arg = 1 + t.Next(2*sc.Replicas+2)
		case "jump":
			ev.Arg = 1 + t.Next(len(sc.Steps))
		case "hostile-jump":
			vals := []int{0, -1, -5, len(sc.Steps) + 1, len(sc.Steps) + 5, 2147483647, len(sc.Steps)}
			ev.Arg = vals[t.Next(len(vals))]
		case "edit-plan":
			ev.Arg = t.Next(1000)
		}
		if ev.Kind == "scale" && strings.HasSuffix(sc.Family, "bluegreen") {
			continue // resizing during a blue-green release is not supported (the controllers disable the HPA for its duration)
		}
		sc.Events = append(sc.Events, ev)
		switch ev.Kind {
		case "pause":
			sc.Events = append(sc.Events, UserEvent{Kind: "resume", After: "pause", Arg: 1 + t.Next(30)})
		case "disable":
			if t.Next(2) == 1 {
				sc.Events = append(sc.Events, UserEvent{Kind: "enable", After: "disable", Arg: 5 + t.Next(60)})
			}
		}
	}
	// now and then a second release follows the first
	if t.Next(8) == 0 {
		sc.Events = append(sc.Events, UserEvent{Kind: "release-v3-late"})
	}
}

func pctOver(v string, limit int) bool {
	if !strings.HasSuffix(v, "%") {
		return false
	}
	p := 0
	fmt.Sscanf(v, "%d%%", &p)
	return p > limit
}

func thoroughTier() bool { return os.Getenv("KSIM_TIER") == "thorough" }
