package ksim

import (
	"context"
	"fmt"
	"strings"
	"time"

	"k8s.io/apimachinery/pkg/util/intstr"

	kruisev1alpha1 "github.com/openkruise/kruise-api/apps/v1alpha1"
	appsv1 "k8s.io/api/apps/v1"
	corev1 "k8s.io/api/core/v1"
	apierrors "k8s.io/apimachinery/pkg/api/errors"
	"k8s.io/apimachinery/pkg/types"
	"sigs.k8s.io/controller-runtime/pkg/client"

	"github.com/openkruise/rollouts/api/v1alpha1"
	"github.com/openkruise/rollouts/api/v1beta1"
	rutil "github.com/openkruise/rollouts/pkg/util"
)

// User is the scripted user / PaaS.  It acts through ordinary API writes on the "user" handle and
// reads the authoritative store (kubectl talks to the API server, not to a controller cache).
type User struct {
	sim           *Sim
	sc            *Scenario
	h             *Handle
	ctx           context.Context
	phase         int // 0: create rollout, 1: wait healthy, 2: release v2, 3: running
	Actions       int
	Version       int // current desired version of the workload template (1, 2, 3 ...)
	Released      bool
	Approvals     int
	PausedByUser  bool
	ExitNoBR      bool
	retryAt       time.Time
	ExitUnclaimed bool // an exit was requested while no BatchRelease held the workload
	ReissuedID    bool // rollout-id changed without a template change during the release
	Early         bool // a revision change was issued while the rollout was still initialising
	doneKinds     map[string]bool
	doneAt        map[string]time.Time
	Disturbed     bool // the user did something after the release that changes what "finished" means
}

func NewUser(s *Sim, sc *Scenario) *User {
	u := &User{sim: s, sc: sc, ctx: context.Background(), Version: 1}
	u.h = s.NewHandle("user", nil, false)
	sc.user = u
	if s.User == nil {
		s.User = u
	}
	s.Users = append(s.Users, u)
	s.actors = append(s.actors, u)
	return u
}

func (u *User) rolloutKey() types.NamespacedName {
	return types.NamespacedName{Namespace: u.sc.NS, Name: u.sc.Name + "-ro"}
}

func (u *User) getRollout() *v1beta1.Rollout {
	ro := &v1beta1.Rollout{}
	if err := u.h.Get(u.ctx, u.rolloutKey(), ro); err != nil {
		return nil
	}
	return ro
}

func (u *User) getWorkload() client.Object {
	var o client.Object
	switch _, kind := u.sc.workloadGVK(); kind {
	case "CloneSet":
		o = &kruisev1alpha1.CloneSet{}
	default:
		o = &appsv1.Deployment{}
	}
	if err := u.h.Get(u.ctx, types.NamespacedName{Namespace: u.sc.NS, Name: u.sc.Name}, o); err != nil {
		return nil
	}
	return o
}

func workloadTemplate(o client.Object) *corev1.PodTemplateSpec {
	switch w := o.(type) {
	case *kruisev1alpha1.CloneSet:
		return &w.Spec.Template
	case *appsv1.Deployment:
		return &w.Spec.Template
	}
	return rutil.GetTemplate(o)
}

func (u *User) step(name string, fn func()) option {
	return option{"user:" + name, func() {
		s := u.sim
		s.recSeq++
		prev := s.cur
		s.cur = &Task{Name: "user:" + name, Actor: "user", RecID: s.recSeq, FirstRead: map[ObjKey]readRec{}, LastRead: map[ObjKey]readRec{}}
		defer func() { s.cur = prev }()
		u.Actions++
		s.lastFaultAt = s.Steps
		s.stat("user." + name)
		if s.EvLog != nil {
			s.EvLog.add("U|" + name)
		}
		fn()
	}}
}

// setVersion edits the workload template (a release, a rollback or a newer release).
func (u *User) setVersion(v int) error {
	o := u.getWorkload()
	if o == nil {
		return fmt.Errorf("workload gone")
	}
	t := workloadTemplate(o)
	same := t.Spec.Containers[0].Image == fmt.Sprintf("app:v%d", v)
	t.Spec.Containers[0].Image = fmt.Sprintf("app:v%d", v)
	if u.sc.RolloutID && !same {
		u.setRolloutID(o, fmt.Sprintf("rid-%d-%d", v, u.Actions))
	}
	err := u.h.Update(u.ctx, o)
	if err == nil {
		u.Version = v
	}
	return err
}

// setRolloutID: the documented place is the workload's labels; some users mirror it into the annotation as well
func (u *User) setRolloutID(o client.Object, id string) {
	l := o.GetLabels()
	if l == nil {
		l = map[string]string{}
	}
	l[v1beta1.RolloutIDLabel] = id
	o.SetLabels(l)
	if u.sc.RolloutIDAnno {
		a := o.GetAnnotations()
		if a == nil {
			a = map[string]string{}
		}
		a[v1beta1.RolloutIDLabel] = id
		o.SetAnnotations(a)
	}
}

func (u *User) backoff() {
	u.retryAt = u.sim.Now().Add(500 * time.Millisecond)
	u.sim.After(501*time.Millisecond, func() {})
}

func (u *User) Options(s *Sim) []option {
	if s.Now().Before(u.retryAt) {
		return nil // the API server refused the last request (webhook unavailable): retry a bit later
	}
	switch u.phase {
	case 0:
		return []option{u.step("create-rollout", func() {
			if err := u.h.Create(u.ctx, u.sc.buildRollout()); err != nil {
				if apierrors.IsInternalError(err) {
					u.backoff() // webhook down: retry
					return
				}
				panic(fmt.Sprintf("scenario rollout rejected: %v", err))
			}
			u.phase = 1
		})}
	case 1:
		ro := u.getRollout()
		if ro == nil || ro.Status.Phase != v1beta1.RolloutPhaseHealthy {
			return nil
		}
		if w := u.getWorkload(); w == nil || w.GetLabels()[rutil.WorkloadTypeLabel] == "" {
			return nil
		}
		return []option{u.step("release-v2", func() {
			if err := u.setVersion(2); err != nil {
				u.backoff()
				return
			}
			u.Released = true
			u.phase = 3
		})}
	}
	ro := u.getRollout()
	if ro == nil {
		return nil
	}
	var opts []option
	sub := ro.Status.GetSubStatus()
	opts = append(opts, u.eventOptions(ro)...)
	if sub != nil && ro.Status.Phase == v1beta1.RolloutPhaseProgressing && sub.CurrentStepState == v1beta1.CanaryStepStatePaused && u.sc.AutoApprove {
		idx := int(sub.CurrentStepIndex)
		steps := ro.Spec.Strategy.GetSteps()
		if idx >= 1 && idx <= len(steps) && steps[idx-1].Pause.Duration == nil {
			opts = append(opts, u.step("approve", func() {
				cur := u.getRollout()
				if cur == nil || cur.Status.GetSubStatus() == nil || cur.Status.GetSubStatus().CurrentStepState != v1beta1.CanaryStepStatePaused {
					return
				}
				cur.Status.GetSubStatus().CurrentStepState = v1beta1.CanaryStepStateReady
				if err := u.h.Status().Update(u.ctx, cur); err == nil {
					u.Approvals++
				}
			}))
		}
	}
	return opts
}

// ---------------------------------------------------------------------------
// scripted disturbances

func reached(ro *v1beta1.Rollout, ev *UserEvent) bool {
	sub := ro.Status.GetSubStatus()
	if ro.Status.Phase != v1beta1.RolloutPhaseProgressing {
		return false
	}
	if strings.HasSuffix(ev.Kind, "-late") {
		return false // handled separately: fires once the release is over
	}
	if strings.HasSuffix(ev.Kind, "-early") {
		// fires while the rollout is still initialising (the user changes his mind within seconds)
		return progressingReason(ro) == v1alpha1.ProgressingReasonInitializing
	}
	if sub == nil || progressingReason(ro) != v1alpha1.ProgressingReasonInRolling {
		return false
	}
	if int(sub.CurrentStepIndex) != ev.AtStep {
		return int(sub.CurrentStepIndex) > ev.AtStep
	}
	return stepRank(sub.CurrentStepState) >= stepRank(v1beta1.CanaryStepState(ev.AtState))
}

// brReadyFor: the BatchRelease reports the batch of the Rollout's current step Ready (authoritative).
func (u *User) brReadyFor(ro *v1beta1.Rollout) bool {
	br, _ := u.sim.Store.Peek(ObjKey{GK: gkBR, NS: ro.Namespace, Name: ro.Name}).(*v1beta1.BatchRelease)
	sub := ro.Status.GetSubStatus()
	return br != nil && sub != nil && br.Status.CanaryStatus.CurrentBatchState == v1beta1.ReadyBatchState && br.Status.CanaryStatus.CurrentBatch+1 == sub.CurrentStepIndex
}

func (u *User) eventOptions(ro *v1beta1.Rollout) []option {
	var opts []option
	for i := range u.sc.Events {
		ev := &u.sc.Events[i]
		if ev.Done {
			continue
		}
		if ev.Kind == "edit-plan-current" && ev.AtState == "StepUpgrade" && !(reached(ro, ev) && u.brReadyFor(ro)) {
			// narrow window on purpose: the batch is already Ready but the Rollout has not consumed it yet
			if sub := ro.Status.GetSubStatus(); sub != nil && (int(sub.CurrentStepIndex) > ev.AtStep || stepRank(sub.CurrentStepState) > 1) && reached(ro, ev) {
				ev.AtState = "StepTrafficRouting" // window missed: fall back to an ordinary trigger
			}
			continue
		}
		if ev.Kind == "delete-batchrelease-claim-window" {
			// narrow window on purpose: the BatchRelease has claimed the workload but not yet recorded that it did
			br, _ := u.sim.Store.Peek(ObjKey{GK: gkBR, NS: ro.Namespace, Name: ro.Name}).(*v1beta1.BatchRelease)
			w := u.getWorkload()
			if br == nil || w == nil || br.DeletionTimestamp != nil || controlledByUID(w) != string(br.UID) ||
				!(br.Status.Phase == "" || br.Status.Phase == v1beta1.RolloutPhaseInitial || br.Status.Phase == v1beta1.RolloutPhasePreparing) {
				continue
			}
			e := ev
			opts = append(opts, u.step(ev.Kind, func() { u.fire(e) }))
			break
		}
		if strings.HasSuffix(ev.Kind, "-late") {
			if ro.Status.Phase != v1beta1.RolloutPhaseHealthy || !u.Released || ro.Status.GetSubStatus() == nil || ro.Status.GetSubStatus().CurrentStepState != v1beta1.CanaryStepStateCompleted {
				continue
			}
			if c := rutil.GetRolloutCondition(ro.Status, v1beta1.RolloutConditionSucceeded); c == nil {
				continue
			}
		} else if ev.After != "" {
			// follow-up of an earlier event: fires some time after it
			if !u.doneKinds[ev.After] || u.sim.Now().Before(u.doneAt[ev.After].Add(time.Duration(ev.Arg)*time.Second)) {
				continue
			}
		} else if !reached(ro, ev) {
			continue
		}
		e := ev
		opts = append(opts, u.step(ev.Kind, func() { u.fire(e) }))
		break // events fire in script order
	}
	return opts
}

func (u *User) markDone(ev *UserEvent) {
	ev.Done = true
	if u.doneKinds == nil {
		u.doneKinds = map[string]bool{}
		u.doneAt = map[string]time.Time{}
	}
	u.doneKinds[ev.Kind] = true
	u.doneAt[ev.Kind] = u.sim.Now()
	if ev.After != "" {
		// make sure the scheduler wakes up for it
	}
}

func (u *User) fire(ev *UserEvent) {
	s := u.sim
	retry := false
	defer func() {
		if !retry {
			u.markDone(ev)
			// wake-up for follow-ups
			for i := range u.sc.Events {
				if f := &u.sc.Events[i]; f.After == ev.Kind && !f.Done {
					s.After(time.Duration(f.Arg)*time.Second+time.Millisecond, func() {})
				}
			}
		}
	}()
	webhookDown := func(err error) bool {
		if err != nil && apierrors.IsInternalError(err) {
			retry = true
			u.backoff()
			return true
		}
		return false
	}
	switch ev.Kind {
	case "rollback", "rollback-early", "disable", "delete-rollout":
		// fact for the exit oracles: was the workload under BatchRelease control when the exit was requested?
		if wl := u.getWorkload(); wl != nil && controlledByUID(wl) == "" {
			u.ExitUnclaimed = true
			if u.sim.Store.Peek(ObjKey{GK: gkBR, NS: u.sc.NS, Name: u.sc.Name + "-ro"}) == nil {
				u.ExitNoBR = true // no BatchRelease object exists at all at that moment
			}
		}
	}
	switch ev.Kind {
	case "rollback", "rollback-early":
		u.Disturbed = true
		u.Early = u.Early || ev.Kind == "rollback-early"
		if webhookDown(u.setVersion(1)) {
			return
		}
	case "release-v3", "release-v3-early", "release-v3-late":
		// -late: a second release after the first one is over (whatever the first one left behind meets the next)
		u.Disturbed = true
		u.Early = u.Early || ev.Kind == "release-v3-early"
		if webhookDown(u.setVersion(3)) {
			return
		}
	case "reissue-rollout-id":
		// same template, new rollout-id: documented as a new release of the same revision
		o := u.getWorkload()
		if o == nil || !u.sc.RolloutID {
			return
		}
		u.setRolloutID(o, fmt.Sprintf("rid-re-%d", u.Actions))
		if webhookDown(u.h.Update(u.ctx, o)) {
			return
		}
		u.ReissuedID = true
	case "scale":
		o := u.getWorkload()
		if o == nil {
			return
		}
		n := int32(ev.Arg)
		if n < 1 {
			n = 1
		}
		switch w := o.(type) {
		case *kruisev1alpha1.CloneSet:
			w.Spec.Replicas = &n
		case *appsv1.Deployment:
			w.Spec.Replicas = &n
		}
		if webhookDown(u.h.Update(u.ctx, o)) {
			return
		}
	case "pause", "resume":
		ro := u.getRollout()
		if ro == nil {
			return
		}
		ro.Spec.Strategy.Paused = ev.Kind == "pause"
		if webhookDown(u.h.Update(u.ctx, ro)) {
			return
		}
		u.PausedByUser = ev.Kind == "pause"
	case "jump", "hostile-jump":
		ro := u.getRollout()
		if ro == nil || ro.Status.GetSubStatus() == nil {
			return
		}
		ro.Status.GetSubStatus().NextStepIndex = int32(ev.Arg)
		_ = u.h.Status().Update(u.ctx, ro)
	case "edit-plan", "edit-plan-current":
		ro := u.getRollout()
		if ro == nil {
			return
		}
		steps := ro.Spec.Strategy.GetSteps()
		j := ev.Arg % len(steps)
		if ev.Kind == "edit-plan-current" && ro.Status.GetSubStatus() != nil {
			if c := int(ro.Status.GetSubStatus().CurrentStepIndex) - 1; c >= 0 && c < len(steps) {
				j = c
			}
		}
		st := &steps[j]
		lo, hi := 1, 100
		isPct := st.Replicas.Type == intstr.String
		val := func(v *intstr.IntOrString) int {
			if v.Type == intstr.String {
				p := 0
				fmt.Sscanf(v.StrVal, "%d%%", &p)
				return p
			}
			return int(v.IntVal)
		}
		if !isPct {
			hi = u.sc.Replicas + 2
		}
		if j > 0 && (steps[j-1].Replicas.Type == intstr.String) == isPct {
			lo = val(steps[j-1].Replicas)
		}
		if j < len(steps)-1 && (steps[j+1].Replicas.Type == intstr.String) == isPct {
			hi = val(steps[j+1].Replicas)
		}
		if hi < lo {
			hi = lo
		}
		nv := lo + (ev.Arg/7)%(hi-lo+1)
		if isPct {
			x := intstr.FromString(fmt.Sprintf("%d%%", nv))
			st.Replicas = &x
		} else {
			x := intstr.FromInt(nv)
			st.Replicas = &x
		}
		err := u.h.Update(u.ctx, ro)
		if webhookDown(err) {
			return
		}
		if err != nil {
			s.stat("user.edit-plan-rejected")
		}
	case "disable", "enable":
		ro := u.getRollout()
		if ro == nil {
			return
		}
		ro.Spec.Disabled = ev.Kind == "disable"
		if webhookDown(u.h.Update(u.ctx, ro)) {
			return
		}
		u.Disturbed = true
	case "shrink-plan-late":
		// while Healthy the number of steps may be changed
		ro := u.getRollout()
		if ro == nil {
			return
		}
		if ro.Spec.Strategy.Canary != nil && len(ro.Spec.Strategy.Canary.Steps) > 1 {
			ro.Spec.Strategy.Canary.Steps = ro.Spec.Strategy.Canary.Steps[:len(ro.Spec.Strategy.Canary.Steps)-1]
		}
		if webhookDown(u.h.Update(u.ctx, ro)) {
			return
		}
	case "invalid-spec-edit":
		// an edit that admission must refuse at any time, also while the Rollout is being deleted: no steps at all,
		// or no strategy at all.  If it is admitted the controllers get to see it.
		ro := u.getRollout()
		if ro == nil {
			return
		}
		switch ev.Arg % 3 {
		case 0:
			if ro.Spec.Strategy.Canary != nil {
				ro.Spec.Strategy.Canary.Steps = nil
			} else if ro.Spec.Strategy.BlueGreen != nil {
				ro.Spec.Strategy.BlueGreen.Steps = nil
			}
		case 1:
			ro.Spec.Strategy.Canary, ro.Spec.Strategy.BlueGreen = nil, nil
		case 2:
			ro.Spec.WorkloadRef.Name = ""
		}
		_ = u.h.Update(u.ctx, ro)
	case "delete-rollout", "delete-rollout-late":
		ro := u.getRollout()
		if ro == nil {
			return
		}
		u.Disturbed = true
		_ = u.h.Delete(u.ctx, ro)
	case "delete-batchrelease", "delete-batchrelease-claim-window":
		// a PaaS (or kubectl) may delete the BatchRelease object itself; its finalizer must still give the workload back
		br := &v1beta1.BatchRelease{}
		if err := u.h.Get(u.ctx, types.NamespacedName{Namespace: u.sc.NS, Name: u.sc.Name + "-ro"}, br); err != nil {
			return
		}
		u.Disturbed = true
		_ = u.h.Delete(u.ctx, br)
	case "hostile-script", "restore-script":
		// C16 in the loop: the operator replaces the configured provider script by a broken one (only scripts that end by
		// themselves: a spinning VM cannot run under the simulated clock, see lua16), and puts the good one back later
		cm := &corev1.ConfigMap{}
		if err := u.h.Get(u.ctx, types.NamespacedName{Namespace: "kruise-rollout", Name: "kruise-rollout-configuration"}, cm); err != nil {
			return
		}
		script := customTagScript
		if ev.Kind == "hostile-script" {
			script = hostileScripts[ev.Arg%len(hostileScripts)]
		}
		if cm.Data == nil {
			cm.Data = map[string]string{}
		}
		cm.Data["lua.traffic.routing.TrafficTag.example.io"] = script
		_ = u.h.Update(u.ctx, cm)
	case "touch-annotation":
		o := u.getWorkload()
		if o == nil {
			return
		}
		a := o.GetAnnotations()
		if a == nil {
			a = map[string]string{}
		}
		a["user/touched"] = fmt.Sprint(u.Actions)
		o.SetAnnotations(a)
		if webhookDown(u.h.Update(u.ctx, o)) {
			return
		}
	case "hostile-pod-labels":
		// users may label pods: put the current rollout-id with an odd batch-id on a new-revision pod
		br := &v1beta1.BatchRelease{}
		if err := u.h.Get(u.ctx, u.rolloutKey(), br); err != nil || br.Spec.ReleasePlan.RolloutID == "" {
			return
		}
		var cands []*corev1.Pod
		for _, k := range s.Store.Keys(gkPod) {
			p := s.Store.Peek(k).(*corev1.Pod)
			if k.NS == u.sc.NS && p.DeletionTimestamp == nil && podRevisionMatches(p, br.Status.UpdateRevision) {
				cands = append(cands, p)
			}
		}
		if len(cands) == 0 {
			return
		}
		p := cands[ev.Arg%len(cands)].DeepCopy()
		vals := []string{"0", "-3", "999", "abc", "", fmt.Sprint(len(u.sc.Steps) + 1), "1"}
		p.Labels[v1beta1.RolloutIDLabel] = br.Spec.ReleasePlan.RolloutID
		p.Labels[v1beta1.RolloutBatchIDLabel] = vals[(ev.Arg/7)%len(vals)]
		_ = u.h.Update(u.ctx, p)
	case "unpause-workload":
		if d, ok := u.getWorkload().(*appsv1.Deployment); ok {
			d.Spec.Paused = false
			if webhookDown(u.h.Update(u.ctx, d)) {
				return
			}
		}
	}
}

// hostileScripts: broken provider scripts that terminate on their own
var hostileScripts = []string{
	"error('boom')",
	"return 42",
	"return nil",
	"local x = nil return x.y.z",
	"local function f(n) return 1 + f(n + 1) end return f(1)",
	"local t = {} t.t = t return t",
	"local t = {} t[1] = t return t",
	"return {1, 2, x = 3}",
	"return {a = 0/0}",
	"return {spec = 1, labels = 'x', annotations = {1, 2}}",
	"return {f = print}",
	"return {a = }",
	"local t = setmetatable({}, {__index = function(t, k) return t[k .. 'x'] end}) return t.a",
	"return {r = dofile('/etc/hostname'), s = loadfile and 1}",
	"return obj.data.spec.no.such.field",
}
