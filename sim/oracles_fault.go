package ksim

import (
	"fmt"
	"strings"

	appsv1 "k8s.io/api/apps/v1"
	corev1 "k8s.io/api/core/v1"
	"sigs.k8s.io/controller-runtime/pkg/client"

	"github.com/openkruise/rollouts/api/v1beta1"
)

const (
	rolloutFinalizer = "rollouts.kruise.io/rollout"
	brFinalizer      = "rollouts.kruise.io/batch-release-finalizer"
	canaryFinalizer  = "finalizer.rollouts.kruise.io/batch-release"
)

func hasFinalizer(o client.Object, f string) bool {
	if o == nil {
		return false
	}
	for _, x := range o.GetFinalizers() {
		if x == f {
			return true
		}
	}
	return false
}

// faultOracle: at-most-once effects (C06) and finalizer discipline (C18).
type faultOracle struct {
	baseOracle
	sc *Scenario
	tr *trafficOracle
}

func (o *faultOracle) Name() string { return "fault" }

func (o *faultOracle) OnWrite(s *Sim, w *Write) {
	if !o.sc.owns(w.Key) {
		return
	}
	fam := o.sc.Family
	// C06 (c): never two live canary Deployments for one workload
	if w.Key.GK == gkDeployment && w.Verb == "create" {
		n := 0
		var owner string
		if refs := w.New.GetOwnerReferences(); len(refs) > 0 {
			owner = string(refs[0].UID)
		}
		for _, k := range s.Store.Keys(gkDeployment) {
			d := s.Store.Peek(k).(*appsv1.Deployment)
			if d.Labels[canaryDepLabel] == o.sc.Name && d.Namespace == o.sc.NS && d.DeletionTimestamp == nil && len(d.OwnerReferences) > 0 && string(d.OwnerReferences[0].UID) == owner {
				n++ // canary Deployments of an earlier BatchRelease that wait for the garbage collector do not count
			}
		}
		s.probe("c06.canary-creates")
		if n > 1 {
			s.Violate("C06", "A1-at-most-once", "A1/canary-deployments/"+fam, w.Seq, "%d live canary Deployments exist for workload %s after %s by %s", n, o.sc.Name, w.Key, w.Actor)
		}
	}
	// C18 F1: the controllers drop their own finalizer only when the cleanup is complete
	if w.Old == nil {
		return
	}
	switch w.Key.GK {
	case gkRollout:
		if hasFinalizer(w.Old, rolloutFinalizer) && (w.New == nil || !hasFinalizer(w.New, rolloutFinalizer)) && w.Actor == "rollout-ctrl" {
			s.probe("c18.rollout-finalizer-removals")
			ro := w.Old.(*v1beta1.Rollout)
			var residue []string
			if s.Store.Peek(ObjKey{GK: gkBR, NS: w.Key.NS, Name: w.Key.Name}) != nil {
				residue = append(residue, "BatchRelease still exists")
			}
			if ro.Spec.Strategy.HasTrafficRoutings() && !ro.Spec.Strategy.DisableGenerateCanaryService() {
				if s.Store.Peek(ObjKey{GK: gkService, NS: w.Key.NS, Name: o.tr.canarySvc}) != nil {
					residue = append(residue, "canary Service still exists")
				}
				if ss, _ := s.Store.Peek(ObjKey{GK: gkService, NS: w.Key.NS, Name: o.tr.stableSvc}).(*corev1.Service); ss != nil && ss.Spec.Selector[revKey] != "" {
					residue = append(residue, "stable Service still pinned to "+ss.Spec.Selector[revKey])
				}
				if cur := o.tr.current(s); cur.positive() {
					residue = append(residue, fmt.Sprintf("gateway still routes share=%d match=%v to the canary", cur.Share, cur.Match))
				}
				for _, k := range s.Store.Keys(gkIngress) {
					if k.Name == o.sc.Name+"-ing-canary" {
						residue = append(residue, "canary Ingress still exists")
					}
				}
			}
			if wl := s.Store.Peek(ObjKey{GK: workloadGK(o.sc), NS: o.sc.NS, Name: o.sc.Name}); wl != nil {
				if _, ok := wl.GetAnnotations()[inProgressAnno]; ok {
					residue = append(residue, "workload still marked in-progress")
				}
				if uid := controlledByUID(wl); uid != "" {
					r := "workload still under BatchRelease control"
					if s.Flags["br-completed-claim-not-seen/"+uid] {
						r += " (claim-not-seen)" // follow-up of the known B3/F1 claim-not-seen finding: that BatchRelease is gone already
					}
					residue = append(residue, r)
				}
			}
			for _, r := range residue {
				tag := ""
				if strings.Contains(r, "(claim-not-seen)") {
					tag = "/claim-not-seen"
				}
				s.Violate("C18", "F1-finalizer", "F1/rollout/"+fam+"/"+firstWords(r, 3)+tag, w.Seq, "Rollout finalizer removed although cleanup is incomplete: %s", r)
			}
		}
	case gkBR:
		if hasFinalizer(w.Old, brFinalizer) && (w.New == nil || !hasFinalizer(w.New, brFinalizer)) && w.Actor == "br-ctrl" {
			s.probe("c18.br-finalizer-removals")
			br := w.Old.(*v1beta1.BatchRelease)
			if wl := s.Store.Peek(ObjKey{GK: workloadGK(o.sc), NS: o.sc.NS, Name: br.Spec.WorkloadRef.Name}); wl != nil && controlledByUID(wl) == string(br.UID) {
				tag := ""
				if s.Flags["br-completed-claim-not-seen/"+string(br.UID)] {
					tag = "/claim-not-seen"
				}
				s.Violate("C18", "F1-finalizer", "F1/batchrelease/"+fam+"/control"+tag, w.Seq, "BatchRelease finalizer removed while the workload still carries its control annotation")
			}
			for _, k := range s.Store.Keys(gkDeployment) {
				d := s.Store.Peek(k).(*appsv1.Deployment)
				if d.Labels[canaryDepLabel] != "" && hasFinalizer(d, canaryFinalizer) {
					for _, ref := range d.OwnerReferences {
						if ref.UID == br.UID {
							s.Violate("C18", "F1-finalizer", "F1/batchrelease/"+fam+"/canary", w.Seq, "BatchRelease finalizer removed while canary Deployment %s still holds its finalizer", k.Name)
						}
					}
				}
			}
		}
	}
}

func firstWords(s string, n int) string {
	out := ""
	c := 0
	for _, r := range s {
		if r == ' ' {
			c++
			if c >= n {
				break
			}
			r = '-'
		}
		out += string(r)
	}
	return out
}

func workloadGK(sc *Scenario) (gk GKAlias) {
	_, kind := sc.workloadGVK()
	if kind == "CloneSet" {
		return gkCloneSet
	}
	return gkDeployment
}

// C18 F2: once faults stop, a deleted object does not stay for ever
func (o *faultOracle) OnEnd(s *Sim) {
	if s.Cfg.anyFault() && s.Cfg.FaultsStopAt == 0 {
		return
	}
	for _, gk := range []GKAlias{gkRollout, gkBR} {
		for _, k := range s.Store.Keys(gk) {
			if !o.sc.owns(k) {
				continue
			}
			obj := s.Store.Peek(k)
			if obj.GetDeletionTimestamp() == nil {
				continue
			}
			kind := "L2"
			if s.EndReason == "quiescent" {
				kind = "L1"
			}
			s.Violate("C18", "F2-deletion-completes", fmt.Sprintf("F2/%s/%s/%s", kind, k.GK.Kind, o.sc.Family), s.Store.seq,
				"%s %s was deleted but still exists at the end of the run (%s after %d steps): %s", k.GK.Kind, k.Name, s.EndReason, s.Steps, s.abstractState())
		}
	}
}
