package ksim

import (
	"encoding/json"
	"fmt"
	"reflect"
	"strconv"
	"strings"

	kruisev1alpha1 "github.com/openkruise/kruise-api/apps/v1alpha1"
	appsv1 "k8s.io/api/apps/v1"
	corev1 "k8s.io/api/core/v1"
	metav1 "k8s.io/apimachinery/pkg/apis/meta/v1"
	"k8s.io/apimachinery/pkg/util/intstr"
	"sigs.k8s.io/controller-runtime/pkg/client"

	"github.com/openkruise/rollouts/api/v1alpha1"
	"github.com/openkruise/rollouts/api/v1beta1"
	rutil "github.com/openkruise/rollouts/pkg/util"
)

// ---------------------------------------------------------------------------
// C12: pod batch labels

type labelOracle struct {
	baseOracle
	sc   *Scenario
	maxN int
}

func (o *labelOracle) Name() string { return "labels" }

func podRevisionMatches(p *corev1.Pod, rev string) bool {
	if rev == "" {
		return false
	}
	for _, k := range []string{appsv1.DefaultDeploymentUniqueLabelKey, appsv1.ControllerRevisionHashLabelKey} {
		if v := p.Labels[k]; v != "" && strings.HasSuffix(rev, v) {
			return true
		}
	}
	return false
}

func (o *labelOracle) OnWrite(s *Sim, w *Write) {
	if !o.sc.owns(w.Key) {
		return
	}
	if w.Key.GK != gkPod || w.Actor != "br-ctrl" || w.New == nil || w.Old == nil {
		return
	}
	op, np := w.Old.(*corev1.Pod), w.New.(*corev1.Pod)
	if op.Labels[v1beta1.RolloutIDLabel] == np.Labels[v1beta1.RolloutIDLabel] && op.Labels[v1beta1.RolloutBatchIDLabel] == np.Labels[v1beta1.RolloutBatchIDLabel] {
		return
	}
	s.probe("c12.label-writes")
	fam := o.sc.Family
	var br *v1beta1.BatchRelease
	if t := s.cur; t != nil {
		br = asReadBR(t, ObjKey{GK: gkBR, NS: o.sc.NS, Name: o.sc.Name + "-ro"})
	}
	if br == nil {
		return
	}
	rid := br.Spec.ReleasePlan.RolloutID
	if np.Labels[v1beta1.RolloutIDLabel] != rid {
		return
	}
	// L1: only live pods of the new revision
	if np.DeletionTimestamp != nil {
		s.Violate("C12", "L1-target", "L1/terminating/"+fam, w.Seq, "batch label given to terminating pod %s", w.Key.Name)
	}
	// revision as the controller must see it: for ReplicaSet pods the controller-revision-hash is patched in the same write
	if !podRevisionMatches(np, br.Status.UpdateRevision) {
		s.Violate("C12", "L1-target", "L1/revision/"+fam, w.Seq, "batch label (%s,%s) given to pod %s which is not of the update revision %s (labels %v)", rid, np.Labels[v1beta1.RolloutBatchIDLabel], w.Key.Name, br.Status.UpdateRevision, np.Labels)
	}
	// what this reconcile knew about the pod (decisions are judged against reads; a stale cache is not a decision)
	asRead := op
	if t := s.cur; t != nil {
		if rr, ok := t.LastRead[w.Key]; ok && rr.Found {
			asRead = rr.Obj.(*corev1.Pod)
		}
	}
	// L3: a pod already labelled for this release is never relabelled
	if asRead.Labels[v1beta1.RolloutIDLabel] == rid && asRead.Labels[v1beta1.RolloutBatchIDLabel] != "" && asRead.Labels[v1beta1.RolloutBatchIDLabel] != np.Labels[v1beta1.RolloutBatchIDLabel] {
		if n, err := strconv.Atoi(asRead.Labels[v1beta1.RolloutBatchIDLabel]); err == nil && n >= 1 && n <= len(br.Spec.ReleasePlan.Batches) {
			s.Violate("C12", "L3-relabel", "L3/"+fam, w.Seq, "pod %s already carried (%s, batch %s) when the controller read it and was relabelled to batch %s", w.Key.Name, rid, asRead.Labels[v1beta1.RolloutBatchIDLabel], np.Labels[v1beta1.RolloutBatchIDLabel])
		}
	}
	// L2: budget of the batch
	bid, err := strconv.Atoi(np.Labels[v1beta1.RolloutBatchIDLabel])
	batches := br.Spec.ReleasePlan.Batches
	if err != nil || bid < 1 || bid > len(batches) {
		s.Violate("C12", "L2-budget", "L2/batch-id/"+fam, w.Seq, "pod %s labelled with batch-id %q outside the plan (1..%d)", w.Key.Name, np.Labels[v1beta1.RolloutBatchIDLabel], len(batches))
		return
	}
	if br.Status.CanaryStatus.NoNeedUpdateReplicas != nil || strings.Contains(s.firedEvents(), "scale") {
		return // rollback in batches and rescaled workloads use other budgets; not judged here
	}
	if o.sc.Family == "deploy-canary" {
		// with a duplicated canary Deployment (the C06 A1 finding: create answered with an error after it was applied) the
		// pods of both carry the labels; the budget of "the" canary workload is undefined then
		live := 0
		for _, k := range s.Store.Keys(gkDeployment) {
			if d := s.Store.Peek(k).(*appsv1.Deployment); d.Labels[canaryDepLabel] == o.sc.Name && d.Namespace == o.sc.NS {
				live++
			}
		}
		if live > 1 {
			return
		}
	}
	n := 0
	if t := s.cur; t != nil {
		if rr, ok := t.LastRead[ObjKey{GK: workloadGK(o.sc), NS: o.sc.NS, Name: o.sc.Name}]; ok && rr.Found {
			switch wl := rr.Obj.(type) {
			case *appsv1.Deployment:
				n = int(*wl.Spec.Replicas)
			case *kruisev1alpha1.CloneSet:
				n = int(*wl.Spec.Replicas)
			}
		}
	}
	if n == 0 {
		return
	}
	inc := planned(batches[bid-1].CanaryReplicas, n)
	if bid > 1 {
		inc -= planned(batches[bid-2].CanaryReplicas, n)
	}
	if inc < 0 {
		inc = 0
	}
	// pods carrying (rollout-id, batch) as this reconcile knows them: its reads plus its own writes so far
	t := s.cur
	if t == nil {
		return
	}
	if t.Notes == nil {
		t.Notes = map[ObjKey]string{}
	}
	t.Notes[w.Key] = fmt.Sprint(bid)
	count := 0
	for k, rr := range t.LastRead {
		if k.GK != gkPod || !rr.Found || !o.sc.owns(k) {
			continue
		}
		p := rr.Obj.(*corev1.Pod)
		if p.DeletionTimestamp != nil {
			continue
		}
		b := p.Labels[v1beta1.RolloutBatchIDLabel]
		id := p.Labels[v1beta1.RolloutIDLabel]
		if nb, ok := t.Notes[k]; ok {
			b, id = nb, rid
		}
		if id == rid && b == fmt.Sprint(bid) {
			count++
		}
	}
	s.probe("c12.budget-checks")
	if count > inc+slack(n) {
		s.Violate("C12", "L2-budget", "L2/over/"+fam, w.Seq, "%d pods carry (%s, batch %d) as far as this reconcile knows, but batch %d adds only %d pods under the plan (%d replicas)", count, rid, bid, bid, inc, n)
	}
}

// ---------------------------------------------------------------------------
// C17: partition-style Deployment scaling by the advanced deployment controller

type deployOracle struct {
	baseOracle
	sc *Scenario
}

func (o *deployOracle) Name() string { return "deployment" }

func partitionLimit(p intstr.IntOrString, n int) int {
	l := planned(p, n)
	if p.Type == intstr.String && p.StrVal != "100%" && n > 1 && l > n-1 {
		l = n - 1 // documented: a percentage below 100% never takes the last pod
	}
	return l
}

func (o *deployOracle) OnWrite(s *Sim, w *Write) {
	if !o.sc.owns(w.Key) {
		return
	}
	if w.Key.GK != gkRS || w.Actor != "deploy-ctrl" || w.New == nil {
		return
	}
	nrs := w.New.(*appsv1.ReplicaSet)
	before := int32(0)
	if w.Old != nil {
		before = *w.Old.(*appsv1.ReplicaSet).Spec.Replicas
	}
	after := *nrs.Spec.Replicas
	if before == after {
		return
	}
	ref := metav1.GetControllerOf(nrs)
	if ref == nil {
		return
	}
	d, _ := s.Store.Peek(ObjKey{GK: gkDeployment, NS: w.Key.NS, Name: ref.Name}).(*appsv1.Deployment)
	if d == nil || d.UID != ref.UID {
		return
	}
	st := v1alpha1.DeploymentStrategy{}
	if json.Unmarshal([]byte(d.Annotations[v1alpha1.DeploymentStrategyAnnotation]), &st) != nil || st.RollingStyle != v1alpha1.PartitionRollingStyle {
		return
	}
	// the strategy the controller acted on is the one it read
	if t := s.cur; t != nil {
		if rr, ok := t.FirstRead[ObjKey{GK: gkDeployment, NS: w.Key.NS, Name: ref.Name}]; ok && rr.Found {
			rd := rr.Obj.(*appsv1.Deployment)
			st2 := v1alpha1.DeploymentStrategy{}
			if json.Unmarshal([]byte(rd.Annotations[v1alpha1.DeploymentStrategyAnnotation]), &st2) == nil {
				st = st2
			}
			d = rd
		}
	}
	n := int(*d.Spec.Replicas)
	// "size is not being changed": every ReplicaSet was sized for the current replicas
	var rss []*appsv1.ReplicaSet
	resizing := false
	// ReplicaSets as the deciding sync knew them: its lister cache, overlaid with what it wrote itself in this sync
	// (another party - the native controller after a hand-over - may have resized them meanwhile; that is not this sync's doing)
	own := map[ObjKey]bool{}
	if t := s.cur; t != nil {
		for i := len(s.Store.Log) - 1; i >= 0 && s.Store.Log[i].RecID == t.RecID && s.Store.Log[i].Actor == w.Actor; i-- {
			own[s.Store.Log[i].Key] = true
		}
	}
	for _, k := range s.Store.Keys(gkRS) {
		rs := s.Store.Peek(k).(*appsv1.ReplicaSet)
		if !own[k] && k != w.Key {
			c, _ := s.Proc.cache.objs[k].(*appsv1.ReplicaSet)
			if c == nil {
				continue // not known to the process yet
			}
			rs = c
		}
		if r := metav1.GetControllerOf(rs); r != nil && r.UID == d.UID && rs.DeletionTimestamp == nil {
			rss = append(rss, rs)
			if *rs.Spec.Replicas > 0 || rs.Name == nrs.Name {
				if dr, err := strconv.Atoi(rs.Annotations[desiredAnno]); err != nil || dr != n {
					resizing = true
				}
			}
		}
	}
	if w.Old != nil {
		if dr, err := strconv.Atoi(w.Old.GetAnnotations()[desiredAnno]); err == nil && dr != n {
			resizing = true
		}
	}
	if resizing || strings.Contains(s.firedEvents(), "scale") {
		s.probe("c17.resizing-writes")
		return
	}
	s.probe("c17.rs-scale-writes")
	fam := o.sc.Family
	isNew := rutil.EqualIgnoreHash(&nrs.Spec.Template, &d.Spec.Template)
	limit := partitionLimit(st.Partition, n)
	if isNew && before == 0 && after == 1 {
		fam += "/new-rs-lower-bound" // the controller always gives the new ReplicaSet at least one replica
	}
	var newSpec, oldSum, total int32
	for _, rs := range rss {
		r := *rs.Spec.Replicas
		total += r
		if rutil.EqualIgnoreHash(&rs.Spec.Template, &d.Spec.Template) {
			newSpec += r
		} else {
			oldSum += r
		}
	}
	surge, unavail := 0, 0
	if st.RollingUpdate != nil {
		surge = scaled(st.RollingUpdate.MaxSurge, n, true, 0)
		unavail = scaled(st.RollingUpdate.MaxUnavailable, n, false, 0)
	}
	if surge == 0 && unavail == 0 {
		unavail = 1
	}
	switch {
	case isNew && after > before:
		if int(after) > limit && int(after) > int(before) {
			s.Violate("C17", "D1-partition", "D1/"+fam, w.Seq, "new ReplicaSet %s scaled %d -> %d but partition %s of %d replicas allows %d", w.Key.Name, before, after, st.Partition.String(), n, limit)
		}
		if int(total) > n+surge {
			s.Violate("C17", "D3-surge", "D3/"+fam, w.Seq, "new ReplicaSet %s scaled up to %d: total %d exceeds replicas %d + maxSurge %d", w.Key.Name, after, total, n, surge)
		}
	case !isNew && after < before:
		reserve := n - max(limit, int(newSpec))
		if int(oldSum) < reserve {
			s.Violate("C17", "D2-reserve", "D2/"+fam, w.Seq, "old ReplicaSet %s scaled %d -> %d: old revisions keep %d pods but partition %s reserves %d of %d for them (new ReplicaSet has %d)", w.Key.Name, before, after, oldSum, st.Partition.String(), reserve, n, newSpec)
		}
		// D4: availability, judged on the ReplicaSet statuses the process knew
		avail := 0
		removedAvail := 0
		for _, rs := range rss {
			c, _ := s.Proc.cache.objs[ObjKey{GK: gkRS, NS: rs.Namespace, Name: rs.Name}].(*appsv1.ReplicaSet)
			if c == nil {
				continue
			}
			avail += int(c.Status.AvailableReplicas)
			if rs.Name == nrs.Name {
				unav := int(before) - int(c.Status.AvailableReplicas)
				if unav < 0 {
					unav = 0
				}
				if cut := int(before-after) - unav; cut > 0 {
					removedAvail = cut
				}
			}
		}
		if removedAvail > 0 && avail-removedAvail < n-unavail {
			if st.Paused {
				fam += "/paused" // the "sync only" path of a paused Deployment (scale()), not the rolling path
			}
			s.Violate("C17", "D4-availability", "D4/"+fam, w.Seq, "old ReplicaSet %s scaled %d -> %d removes %d available pods: %d would stay available, replicas %d - maxUnavailable %d = %d required", w.Key.Name, before, after, removedAvail, avail-removedAvail, n, unavail, n-unavail)
		}
	}
}

// ---------------------------------------------------------------------------
// C08: admission (in-loop): called by the store's admission hook for user updates of workloads

func (s *Sim) checkAdmission(sc *Scenario, old, submitted, admitted client.Object) {
	if s.Proc == nil || s.Proc.down {
		return
	}
	s.probe("c08.user-updates")
	fam := sc.Family
	tmpl := func(o client.Object) *corev1.PodTemplateSpec { return workloadTemplate(o) }
	ridOld, ridNew := old.GetAnnotations()[v1beta1.RolloutIDLabel], submitted.GetAnnotations()[v1beta1.RolloutIDLabel]
	release := false
	if ridNew != "" {
		release = ridOld != ridNew
	} else {
		release = !rutil.EqualIgnoreHash(tmpl(old), tmpl(submitted))
	}
	inProgress := submitted.GetAnnotations()[inProgressAnno] != ""
	replicas := 1
	switch x := submitted.(type) {
	case *appsv1.Deployment:
		replicas = int(*x.Spec.Replicas)
	case *kruisev1alpha1.CloneSet:
		replicas = int(*x.Spec.Replicas)
	}
	// the Rollout the webhook can see
	var ro *v1beta1.Rollout
	for k, o := range s.Proc.cache.objs {
		if k.GK == gkRollout && k.NS == submitted.GetNamespace() {
			r := o.(*v1beta1.Rollout)
			if r.DeletionTimestamp == nil && r.Status.Phase != v1beta1.RolloutPhaseDisabled && r.Spec.WorkloadRef.Name == submitted.GetName() && !r.Spec.Strategy.IsEmptyRelease() {
				ro = r
			}
		}
	}
	held := func(o client.Object) bool {
		switch x := o.(type) {
		case *appsv1.Deployment:
			return x.Spec.Paused
		case *kruisev1alpha1.CloneSet:
			p := x.Spec.UpdateStrategy.Partition
			return p != nil && p.Type == intstr.String && p.StrVal == "100%"
		}
		return false
	}
	if d, isDep := submitted.(*appsv1.Deployment); isDep && inProgress {
		// A4: an edit that un-pauses a Deployment in the middle of a canary- or partition-style release is corrected
		if d.Annotations[v1beta1.OriginalDeploymentStrategyAnnotation] == "" && !admitted.(*appsv1.Deployment).Spec.Paused {
			s.Violate("C08", "A4-repause", "A4/"+fam, s.Store.seq, "Deployment update with paused=%v admitted un-paused in the middle of a release", d.Spec.Paused)
		}
		s.probe("c08.inprogress-updates")
		return
	}
	if _, isCS := submitted.(*kruisev1alpha1.CloneSet); isCS && inProgress && !release {
		return
	}
	single := true
	switch x := submitted.(type) {
	case *appsv1.Deployment:
		active := 0
		for k, o := range s.Proc.cache.objs {
			if k.GK == gkRS && k.NS == x.Namespace {
				rs := o.(*appsv1.ReplicaSet)
				if r := metav1.GetControllerOf(rs); r != nil && r.UID == x.UID && *rs.Spec.Replicas > 0 && rs.DeletionTimestamp == nil {
					active++
				}
			}
		}
		single = active == 1
		if active == 0 {
			ro = nil // nothing to roll
		}
	case *kruisev1alpha1.CloneSet:
		single = x.Status.Replicas == x.Status.UpdatedReplicas
	}
	mustHold := release && replicas > 0 && ro != nil && (!ro.Spec.Strategy.HasTrafficRoutings() || single)
	if mustHold {
		s.probe("c08.release-changes")
		state := map[string]string{}
		_ = json.Unmarshal([]byte(admitted.GetAnnotations()[inProgressAnno]), &state)
		if !held(admitted) {
			s.Violate("C08", "A1-hold", "A1/not-held/"+fam, s.Store.seq, "release change of %s/%s admitted without being held back (rollout %s)", submitted.GetNamespace(), submitted.GetName(), ro.Name)
		} else if state["rolloutName"] != ro.Name {
			s.Violate("C08", "A1-hold", "A1/not-marked/"+fam, s.Store.seq, "release change admitted without the in-progress marker for rollout %s (annotation %q)", ro.Name, admitted.GetAnnotations()[inProgressAnno])
		}
		return
	}
	// A3 frame: everything else is admitted unchanged
	if !reflect.DeepEqual(specOf(submitted), specOf(admitted)) || !reflect.DeepEqual(submitted.GetAnnotations(), admitted.GetAnnotations()) || !reflect.DeepEqual(submitted.GetLabels(), admitted.GetLabels()) {
		s.Violate("C08", "A3-frame", "A3/"+fam, s.Store.seq, "update that is no release change (release=%v replicas=%d rollout=%v single=%v) was modified by admission: %s -> %s", release, replicas, ro != nil, single, dumpJSON(specOf(submitted)), dumpJSON(specOf(admitted)))
	}
}

func specOf(o client.Object) interface{} {
	switch x := o.(type) {
	case *appsv1.Deployment:
		return x.Spec
	case *kruisev1alpha1.CloneSet:
		return x.Spec
	}
	return nil
}
