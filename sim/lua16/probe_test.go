package lua16

import (
	"fmt"
	"os"
	"testing"
	"time"

	"github.com/openkruise/rollouts/pkg/util/luamanager"
	lua "github.com/yuin/gopher-lua"
	"k8s.io/apimachinery/pkg/apis/meta/v1/unstructured"
)

func call(script string) (string, time.Duration) {
	m := &luamanager.LuaManager{}
	u := &unstructured.Unstructured{Object: map[string]interface{}{"data": map[string]interface{}{"spec": map[string]interface{}{"a": int64(1)}}, "canaryWeight": int64(5)}}
	t0 := time.Now()
	l, err := m.RunLuaScript(u, script)
	if err != nil {
		return "err:" + fmt.Sprint(err)[:min(80, len(fmt.Sprint(err)))], time.Since(t0)
	}
	rv := l.Get(-1)
	if rv.Type() != lua.LTTable {
		return "type:" + rv.Type().String(), time.Since(t0)
	}
	b, err := luamanager.Encode(rv)
	if err != nil {
		return "encerr:" + err.Error(), time.Since(t0)
	}
	return fmt.Sprintf("ok:%d bytes", len(b)), time.Since(t0)
}

func TestProbe(t *testing.T) {
	s := os.Getenv("LUA_SCRIPT")
	r, d := call(s)
	fmt.Printf("RESULT %s in %v\n", r, d)
}
