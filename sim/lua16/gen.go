// Package lua16 is the C16 lane: hostile and honest Lua scripts against the repo's real LuaManager and JSON bridge.
//
// One seed = one script (+ one input object).  The script is the injected fault: the traffic provider's worker
// goroutine hands it to RunLuaScript exactly as pkg/trafficrouting/network/customNetworkProvider does, then converts
// the returned table back (luamanager.Encode + json.Unmarshal).  Every run happens in its own child process because
// some of the failures this lane looks for (Go stack exhaustion) cannot be recovered in-process.
package lua16

import (
	"fmt"
	"math/rand"
	"os"
	"strings"
)

// Case is one generated evaluation.
type Case struct {
	Seed     int64       `json:"seed"`
	Category string      `json:"category"` // spin | recursion | error | wrongtype | reach | convert | honest
	Kind     string      `json:"kind"`     // sub-kind, part of the violation signature
	Script   string      `json:"script"`
	Input    interface{} `json:"-"`
	// Expect: "error" (must end in an error), "table" (must end in a table result), "either"
	Expect string `json:"expect"`
	// Identity: the script is supposed to hand Input["data"] back unchanged
	Identity bool `json:"identity,omitempty"`
}

// memory and nesting bombs are outside the property's claim (its quantifier says so): the "alloc" kinds and nesting
// deeper than a few thousand levels are only generated when LUA16_BOMBS is set (exploratory, never part of a check)
var categories = []string{"spin", "recursion", "error", "wrongtype", "reach", "convert", "honest", "deep", "convert", "spin"}

func Generate(seed int64, secretLua, secretTxt, writePath string) *Case {
	r := rand.New(rand.NewSource(seed*7919 + 13))
	c := &Case{Seed: seed}
	c.Input = map[string]interface{}{
		"data":          genValue(r, 0, true),
		"canaryWeight":  int64(r.Intn(101)),
		"stableWeight":  int64(r.Intn(101)),
		"canaryService": "web-canary",
		"stableService": "web",
	}
	c.Category = categories[r.Intn(len(categories))]
	if os.Getenv("LUA16_BOMBS") != "" && r.Intn(2) == 0 {
		c.Category = []string{"alloc", "deep"}[r.Intn(2)]
	}
	pick := func(xs ...[2]string) {
		x := xs[r.Intn(len(xs))]
		c.Kind, c.Script = x[0], x[1]
	}
	n := 1 + r.Intn(5)
	switch c.Category {
	case "spin":
		c.Expect = "error"
		pick(
			[2]string{"while", "while true do end"},
			[2]string{"repeat", "local i = 0 repeat i = i + 1 until false"},
			[2]string{"for-huge", "for i = 1, 1e18 do end"},
			[2]string{"tail-recursion", "local function f() return f() end return f()"},
			[2]string{"pcall-loop", "while true do pcall(function() while true do end end) end"},
			[2]string{"pcall-swallow", "local function spin() while true do end end\nwhile true do local ok = pcall(spin) end"},
			[2]string{"xpcall-handler-spin", "xpcall(function() error('x') end, function() while true do end end)"},
			[2]string{"metamethod-spin", "local t = setmetatable({}, {__index = function(t, k) while true do end end}) return t.x"},
			[2]string{"gsub-callback-spin", "return string.gsub('abc', '.', function() while true do end end)"},
			[2]string{"sort-cmp-spin", "local t = {3,2,1} table.sort(t, function(a, b) while true do end end) return t"},
			[2]string{"string-churn", "local s = '' while true do s = 'x' end"},
			[2]string{"after-result", "local r = {a = 1} while true do end return r"},
			[2]string{"pattern-backtrack", "return {string.find(string.rep('a', 32), string.rep('a*', 32) .. 'b')}"},
			[2]string{"gsub-backtrack", "return {string.gsub(string.rep('ab', 20), string.rep('(.-)', 20) .. 'c', '%1')}"},
		)
	case "recursion":
		c.Expect = "error"
		pick(
			[2]string{"plain", "local function f(n) return 1 + f(n + 1) end return f(1)"},
			[2]string{"mutual", "local g\nlocal function f(n) return 1 + g(n) end\ng = function(n) return 1 + f(n) end\nreturn f(1)"},
			[2]string{"index-chain", "local t = {} setmetatable(t, {__index = function(t, k) return t[k .. 'x'] end}) return t.a"},
			[2]string{"tostring", "local t = {} setmetatable(t, {__tostring = function(x) return tostring(x) .. 'y' end}) return tostring(t)"},
			[2]string{"pcall-nest", "local function f(n) local ok, e = pcall(f, n + 1) if not ok then error(e) end error('bottom') end return f(1)"},
			[2]string{"gsub-nest", "local function f(s) return (string.gsub(s, '.', f)) end return f('a')"},
			[2]string{"concat-meta", "local t = {} setmetatable(t, {__concat = function(a, b) return a .. b end}) return t .. 'x'"},
			[2]string{"call-meta", "local t = {} setmetatable(t, {__call = function(self) return self() end}) return t()"},
		)
	case "error":
		c.Expect = "error"
		pick(
			[2]string{"error-string", "error('boom')"},
			[2]string{"error-table", "error({code = 1})"},
			[2]string{"error-nil", "error(nil)"},
			[2]string{"nil-index", "local x = nil return x.y.z"},
			[2]string{"nil-call", "return undefined_function(1)"},
			[2]string{"arith-nil", "return {a = 1 + nil}"},
			[2]string{"syntax", "return {a = }"},
			[2]string{"garbage", "\x1bLua\x00\x01\x04\x04\x04\x08\x00garbage\xff\xfe"},
			[2]string{"unterminated", "return \"abc"},
			[2]string{"assert", "assert(false, 'nope')"},
			[2]string{"error-in-meta", "local t = setmetatable({}, {__index = function() error('deep') end}) return {a = t.x}"},
			[2]string{"tonumber-overflow", "return {a = string.rep('9', 400) + 1, b = nil + 1}"},
		)
	case "wrongtype":
		c.Expect = "error"
		pick(
			[2]string{"number", "return 42"},
			[2]string{"string", "return 'a table, honest'"},
			[2]string{"nil", "return nil"},
			[2]string{"nothing", "local x = 1"},
			[2]string{"empty-script", ""},
			[2]string{"boolean", "return true"},
			[2]string{"function", "return function() end"},
			[2]string{"mixed-keys", "return {1, 2, x = 3}"},
			[2]string{"sparse", "return {[1] = 1, [3] = 3}"},
			[2]string{"function-value", "return {f = print}"},
			[2]string{"nan", "return {a = 0/0}"},
			[2]string{"inf", "return {a = 1/0}"},
			[2]string{"cycle-map", "local t = {} t.t = t return t"},
			[2]string{"cycle-list", "local t = {} t[1] = t return t"},
			[2]string{"cycle-list-2", "local a, b = {}, {} a[1] = b b[1] = a return {a}"},
			[2]string{"cycle-mixed", "local a = {} local b = {a} a.b = b return {x = a}"},
			[2]string{"bool-keys", "return {[true] = 1}"},
			[2]string{"float-keys", "return {[1.5] = 1}"},
			[2]string{"last-of-many", "return {a = 1}, 2"},
			[2]string{"spec-wrong-type", "return {spec = 1, labels = 'x', annotations = {1, 2}}"},
		)
		if c.Kind == "spec-wrong-type" {
			c.Expect = "either"
		}
	case "deep":
		// well-formed but very deep or very wide values: conversion must stay bounded
		depth := []int{50, 400, 3000}[r.Intn(3)]
		if os.Getenv("LUA16_BOMBS") != "" {
			depth = []int{20000, 100000, 1000000}[r.Intn(3)]
		}
		c.Expect = "either"
		pick(
			[2]string{fmt.Sprintf("nest-list-%d", depth), fmt.Sprintf("local t = {} for i = 1, %d do t = {t} end return t", depth)},
			[2]string{fmt.Sprintf("nest-map-%d", depth), fmt.Sprintf("local t = {} for i = 1, %d do t = {k = t} end return t", depth)},
			[2]string{fmt.Sprintf("nest-encode-%d", depth), fmt.Sprintf("local t = {} for i = 1, %d do t = {t} end return {s = json.encode(t)}", depth)},
			[2]string{fmt.Sprintf("wide-%d", depth), fmt.Sprintf("local t = {} for i = 1, %d do t[i] = i end return t", depth)},
			[2]string{fmt.Sprintf("decode-deep-%d", depth), fmt.Sprintf("return {v = json.decode(string.rep('[', %d) .. string.rep(']', %d))}", depth, depth)},
		)
	case "alloc":
		c.Expect = "either"
		pick(
			[2]string{"rep-huge", "return {s = #string.rep('x', 1e10)}"},
			[2]string{"double-string", "local s = 'xxxxxxxx' while true do s = s .. s end"},
			[2]string{"table-grow", "local t = {} local i = 0 while true do i = i + 1 t[i] = {i, i, i, i} end"},
		)
	case "reach":
		c.Expect = "either"
		q := func(s string) string { return fmt.Sprintf("%q", s) }
		generic := `
local out = {}
local function try(name, f, ...)
  local r = {pcall(f, ...)}
  local s = ''
  for i = 1, #r do s = s .. tostring(r[i]) .. '|' end
  out[#out + 1] = name .. '=' .. s
end
local seen = {}
local function walk(prefix, t, depth)
  if seen[t] or depth > 3 then return end
  seen[t] = true
  for k, v in pairs(t) do
    local name = prefix .. tostring(k)
    if type(v) == 'function' and name ~= 'error' and name ~= 'print' and name ~= 'collectgarbage' then
      try(name, v, PATH)
      try(name .. '2', v, PATH, 'w')
    elseif type(v) == 'table' then
      walk(name .. '.', v, depth + 1)
    end
  end
end
walk('', _G, 0)
return {out = out}
`
		switch r.Intn(10) {
		case 0:
			c.Kind, c.Script = "dofile", "return {r = dofile("+q(secretLua)+")}"
		case 1:
			c.Kind, c.Script = "loadfile-run", "local f = loadfile("+q(secretLua)+") return {r = f and f()}"
		case 2:
			c.Kind, c.Script = "loadfile-err", "local f, e = loadfile("+q(secretTxt)+") return {e = tostring(e)}"
		case 3:
			c.Kind, c.Script = "io-open", "local f = io.open("+q(secretTxt)+") return {r = f:read('*a')}"
		case 4:
			c.Kind, c.Script = "os-execute", "os.execute('touch "+writePath+"') return {a = 1}"
		case 5:
			c.Kind, c.Script = "require", "local ok, m = pcall(require, 'os') if ok and m then m.execute('touch "+writePath+"') end local ok2, io2 = pcall(require, 'io') return {a = tostring(ok), b = tostring(ok2)}"
		case 6:
			c.Kind, c.Script = "io-write", "local f = io.open("+q(writePath)+", 'w') f:write('x') f:close() return {a = 1}"
		case 7:
			c.Kind, c.Script = "walk-globals-secret-lua", strings.Replace(generic, "PATH", q(secretLua), -1)
		case 8:
			c.Kind, c.Script = "walk-globals-secret-txt", strings.Replace(generic, "PATH", q(secretTxt), -1)
		case 9:
			c.Kind, c.Script = "walk-globals-write", strings.Replace(generic, "PATH", q(writePath), -1)
		}
	case "convert":
		c.Expect = "table"
		c.Identity = true
		pick(
			[2]string{"identity", "return obj.data"},
			[2]string{"json-roundtrip", "return json.decode(json.encode(obj.data))"},
			[2]string{"deep-copy", "local function cp(v) if type(v) ~= 'table' then return v end local t = {} for k, x in pairs(v) do t[k] = cp(x) end return t end\nreturn cp(obj.data)"},
			[2]string{"empty-in-list", "return json.decode(json.encode(obj.data))"},
			[2]string{"ipairs-copy", "local function cp(v) if type(v) ~= 'table' then return v end local t = {} if #v > 0 then for i, x in ipairs(v) do t[i] = cp(x) end else for k, x in pairs(v) do t[k] = cp(x) end end return t end\nreturn cp(obj.data)"},
		)
		if c.Kind == "empty-in-list" {
			c.Input.(map[string]interface{})["data"] = map[string]interface{}{"matches": []interface{}{map[string]interface{}{}, map[string]interface{}{"name": "h"}}}
		}
	case "honest":
		// what shipped scripts do: read the weight, build a small table
		c.Expect = "table"
		c.Kind = "weights"
		var sb strings.Builder
		sb.WriteString("local out = {}\n")
		for i := 0; i < n; i++ {
			fmt.Fprintf(&sb, "out['k%d'] = tostring(obj.canaryWeight + %d)\n", i, i)
		}
		sb.WriteString("out.list = {}\nfor i = 1, " + fmt.Sprint(n) + " do out.list[i] = {name = obj.canaryService, weight = obj.canaryWeight} end\nreturn out\n")
		c.Script = sb.String()
	}
	return c
}

// genValue: JSON-like values as runtime.DefaultUnstructuredConverter produces them (int64, float64, string, bool, maps, lists).
func genValue(r *rand.Rand, depth int, wantMap bool) interface{} {
	k := r.Intn(8)
	if wantMap {
		k = 6
	}
	if depth > 4 && k >= 6 {
		k = r.Intn(6)
	}
	switch k {
	case 0:
		return r.Intn(2) == 1
	case 1:
		return int64(r.Intn(2001) - 1000)
	case 2:
		// integers up to 2^53 are exact in a Lua number
		return int64(r.Int63n(1<<53)) * int64(1-2*r.Intn(2))
	case 3:
		return []float64{0.5, -0.25, 1e-9, 3.14159, 1e300, 100, 0}[r.Intn(7)]
	case 4, 5:
		return genString(r)
	case 6:
		m := map[string]interface{}{}
		for i, n := 0, r.Intn(5); i < n || (wantMap && len(m) == 0); i++ {
			m[genKey(r)] = genValue(r, depth+1, false)
		}
		return m
	default:
		// list elements are never null or empty containers: Lua arrays cannot hold nil, and an empty table is
		// written back as null (the dedicated kind "empty-in-list" covers that corner on purpose)
		l := []interface{}{}
		for i, n := 0, r.Intn(4); i < n; i++ {
			v := genValue(r, depth+1, false)
			if m, ok := v.(map[string]interface{}); ok && len(m) == 0 {
				v = map[string]interface{}{"k": "v"}
			}
			if x, ok := v.([]interface{}); ok && len(x) == 0 {
				v = []interface{}{int64(1)}
			}
			l = append(l, v)
		}
		return l
	}
}

func genKey(r *rand.Rand) string {
	return []string{"a", "b", "spec", "http", "route", "weight", "1", "2", "10", "x-y", "nginx.ingress.kubernetes.io/canary", "k.v", "with space", "ünï", "", "true", "nil"}[r.Intn(17)]
}

func genString(r *rand.Rand) string {
	return []string{"", "a", "web-canary", "100", "true", "nil", "null", "with \"quotes\"", "line\nbreak", "tab\t", "back\\slash", "ünïcødé ✓", "\u0000nul", "<html>&amp;", "  pad  ", "1e5", "0x10", "-0", strings.Repeat("long", 200)}[r.Intn(19)]
}
