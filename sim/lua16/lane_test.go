package lua16

import (
	"bufio"
	"bytes"
	"encoding/json"
	"fmt"
	"math"
	"os"
	"os/exec"
	"path/filepath"
	"reflect"
	"sort"
	"strconv"
	"strings"
	"syscall"
	"testing"
	"time"

	"github.com/openkruise/rollouts/pkg/util/luamanager"
	lua "github.com/yuin/gopher-lua"
	"k8s.io/apimachinery/pkg/apis/meta/v1/unstructured"
)

// bounds (wall clock: the Lua VM's deadline is a real context timer that no simulated clock can drive while the VM spins)
const (
	callBound  = 30 * time.Second // "returns within a small bounded time": the script deadline is 1s; generous, the machine may be heavily loaded
	childBound = 100 * time.Second // parent kills the child after this
)

type Outcome struct {
	Seed      int64    `json:"seed"`
	Category  string   `json:"category"`
	Kind      string   `json:"kind"`
	Outcome   string   `json:"outcome"` // table | error | blocked | died
	Detail    string   `json:"detail"`
	Millis    int64    `json:"ms"`
	Violation *Finding `json:"violation,omitempty"`
	Script    string   `json:"script,omitempty"`
}

type Finding struct {
	Property  string `json:"property"`
	Oracle    string `json:"oracle"`
	Signature string `json:"signature"`
	Detail    string `json:"detail"`
}

func clip(s string, n int) string {
	if len(s) > n {
		return s[:n] + "..."
	}
	return s
}

// callLikeProvider mirrors customNetworkProvider.executeLuaForCanary: RunLuaScript, top of stack must be a table,
// luamanager.Encode, json.Unmarshal.
func callLikeProvider(input map[string]interface{}, script string) (result interface{}, err error) {
	m := &luamanager.LuaManager{}
	u := &unstructured.Unstructured{Object: input}
	l, err := m.RunLuaScript(u, script)
	if err != nil {
		return nil, err
	}
	rv := l.Get(-1)
	if rv.Type() != lua.LTTable {
		return nil, fmt.Errorf("expect table output from Lua script, not %s", rv.Type().String())
	}
	b, err := luamanager.Encode(rv)
	if err != nil {
		return nil, err
	}
	var out interface{}
	if err := json.Unmarshal(b, &out); err != nil {
		return nil, err
	}
	return out, nil
}

// norm: meaning-preserving normal form. nil, empty map and empty list are one value (a Lua table cannot tell them
// apart and Kubernetes objects give them one meaning); numbers are float64; nil-valued map entries are absent.
func norm(v interface{}) interface{} {
	switch x := v.(type) {
	case nil:
		return nil
	case bool, string:
		return x
	case int64:
		return float64(x)
	case int:
		return float64(x)
	case float64:
		return x
	case map[string]interface{}:
		m := map[string]interface{}{}
		for k, e := range x {
			if n := norm(e); n != nil {
				m[k] = n
			}
		}
		if len(m) == 0 {
			return nil
		}
		return m
	case []interface{}:
		if len(x) == 0 {
			return nil
		}
		l := make([]interface{}, len(x))
		for i, e := range x {
			l[i] = norm(e)
		}
		return l
	}
	return fmt.Sprintf("?%T", v)
}

func sandboxPaths(dir string) (string, string, string) {
	return filepath.Join(dir, "secret.lua"), filepath.Join(dir, "secret.txt"), filepath.Join(dir, "written")
}

// TestLuaOne: child process, one seed.
func TestLuaOne(t *testing.T) {
	seedS := os.Getenv("LUA16_SEED")
	if seedS == "" {
		t.Skip("child only")
	}
	seed, _ := strconv.ParseInt(seedS, 10, 64)
	dir := os.Getenv("LUA16_DIR")
	secretLua, secretTxt, writePath := sandboxPaths(dir)
	token := fmt.Sprintf("ksim-secret-%d", seed)
	_ = os.WriteFile(secretLua, []byte("return \""+token+"\"\n"), 0o644)
	_ = os.WriteFile(secretTxt, []byte(token+" is not lua ("+token+")\n"), 0o644)
	_ = os.Remove(writePath)
	c := Generate(seed, secretLua, secretTxt, writePath)
	out := Outcome{Seed: seed, Category: c.Category, Kind: c.Kind}
	if os.Getenv("LUA16_SHOW") != "" {
		out.Script = c.Script
	}
	type res struct {
		v   interface{}
		err error
		pan interface{}
	}
	ch := make(chan res, 1)
	t0 := time.Now()
	go func() {
		var r res
		defer func() {
			if p := recover(); p != nil {
				r.pan = p
			}
			ch <- r
		}()
		r.v, r.err = callLikeProvider(c.Input.(map[string]interface{}), c.Script)
	}()
	var r res
	select {
	case r = <-ch:
	case <-time.After(callBound):
		out.Outcome, out.Millis = "blocked", time.Since(t0).Milliseconds()
		out.Violation = &Finding{"C16", "T1-bounded-time", "T1/blocked/" + c.Category + "/" + kindClass(c.Kind), fmt.Sprintf("the call had not returned %v after it was made (script deadline 1s); the worker goroutine is still inside it: %s", callBound, clip(c.Script, 160))}
		emit(out)
		os.Exit(0)
	}
	out.Millis = time.Since(t0).Milliseconds()
	sig := c.Category + "/" + kindClass(c.Kind)
	switch {
	case r.pan != nil:
		out.Outcome, out.Detail = "panic", clip(fmt.Sprint(r.pan), 200)
		out.Violation = &Finding{"C16", "P1-no-panic", "P1/panic/" + sig, "the call panicked: " + out.Detail}
	case r.err != nil:
		out.Outcome, out.Detail = "error", clip(r.err.Error(), 200)
		if c.Expect == "table" {
			out.Violation = &Finding{"C16", "V1-conversion", "V1/refused/" + sig, "a well-formed value could not be handed back: " + out.Detail + " script: " + clip(c.Script, 120)}
		}
	default:
		out.Outcome = "table"
		if c.Expect == "error" {
			out.Violation = &Finding{"C16", "R1-result-or-error", "R1/accepted/" + sig, fmt.Sprintf("a script that cannot produce a table ended in a result: %s -> %v", clip(c.Script, 120), clip(fmt.Sprint(r.v), 120))}
		}
		if c.Identity {
			want, got := norm(c.Input.(map[string]interface{})["data"]), norm(r.v)
			if !reflect.DeepEqual(want, got) {
				wj, _ := json.Marshal(want)
				gj, _ := json.Marshal(got)
				out.Violation = &Finding{"C16", "V1-conversion", "V1/changed/" + sig + "/" + diffClass(want, got), "value changed meaning on the way through the script: in=" + clip(string(wj), 300) + " out=" + clip(string(gj), 300)}
			}
		}
	}
	// S1: nothing of the host may be reachable
	blob, _ := json.Marshal(r.v)
	all := string(blob)
	if r.err != nil {
		all += r.err.Error()
	}
	if strings.Contains(all, token) {
		out.Violation = &Finding{"C16", "S1-no-host-access", "S1/file-read/" + sig, "the script obtained the content of a file on the host: " + clip(all, 200)}
	}
	if _, err := os.Stat(writePath); err == nil {
		out.Violation = &Finding{"C16", "S1-no-host-access", "S1/file-write/" + sig, "the script created a file on the host (" + c.Kind + ")"}
	}
	if out.Millis > callBound.Milliseconds() {
		out.Violation = &Finding{"C16", "T1-bounded-time", "T1/slow/" + sig, fmt.Sprintf("the call took %dms (script deadline 1s)", out.Millis)}
	}
	emit(out)
}

// diffClass names the first structural difference between two normal forms.
func diffClass(a, b interface{}) string {
	switch x := a.(type) {
	case map[string]interface{}:
		y, ok := b.(map[string]interface{})
		if !ok {
			return "type"
		}
		keys := make([]string, 0, len(x))
		for k := range x {
			keys = append(keys, k)
		}
		sort.Strings(keys)
		for _, k := range keys {
			if _, ok := y[k]; !ok {
				return "missing-key"
			}
			if !reflect.DeepEqual(x[k], y[k]) {
				return diffClass(x[k], y[k])
			}
		}
		return "extra-key"
	case []interface{}:
		y, ok := b.([]interface{})
		if !ok {
			return "type"
		}
		if len(x) != len(y) {
			return "list-length"
		}
		for i := range x {
			if !reflect.DeepEqual(x[i], y[i]) {
				return diffClass(x[i], y[i])
			}
		}
		return "equal"
	}
	if reflect.TypeOf(a) != reflect.TypeOf(b) {
		return "type"
	}
	return "value"
}

// kindClass strips the size parameter of "deep" kinds: nest-list-100000 -> nest-list
func kindClass(k string) string {
	i := strings.LastIndex(k, "-")
	if i > 0 {
		if _, err := strconv.Atoi(k[i+1:]); err == nil {
			return k[:i]
		}
	}
	return k
}

func emit(o Outcome) {
	b, _ := json.Marshal(o)
	fmt.Printf("LUA16 %s\n", b)
}

// runChild runs one seed in a fresh process and classifies process death / stalls.
func runChild(seed int64, dir string, show bool) Outcome {
	exe, _ := os.Executable()
	cmd := exec.Command("bash", "-c", "ulimit -v 4000000; exec "+exe+" -test.run '^TestLuaOne$' -test.timeout 5m")
	cmd.Env = append(os.Environ(), "LUA16_SEED="+fmt.Sprint(seed), "LUA16_DIR="+dir, "GOMAXPROCS=2")
	if show {
		cmd.Env = append(cmd.Env, "LUA16_SHOW=1")
	}
	cmd.SysProcAttr = &syscall.SysProcAttr{Setpgid: true}
	var buf bytes.Buffer
	cmd.Stdout, cmd.Stderr = &buf, &buf
	t0 := time.Now()
	if err := cmd.Start(); err != nil {
		return Outcome{Seed: seed, Outcome: "harness", Detail: err.Error()}
	}
	done := make(chan error, 1)
	go func() { done <- cmd.Wait() }()
	var werr error
	killed := false
	select {
	case werr = <-done:
	case <-time.After(childBound):
		_ = syscall.Kill(-cmd.Process.Pid, syscall.SIGKILL)
		werr = <-done
		killed = true
	}
	ms := time.Since(t0).Milliseconds()
	sc := bufio.NewScanner(bytes.NewReader(buf.Bytes()))
	sc.Buffer(make([]byte, 1<<20), 1<<26)
	for sc.Scan() {
		if l := sc.Text(); strings.HasPrefix(l, "LUA16 ") {
			var o Outcome
			if json.Unmarshal([]byte(l[6:]), &o) == nil {
				return o
			}
		}
	}
	// no result line: the process died or stalled inside the call
	secretLua, secretTxt, writePath := sandboxPaths(dir)
	c := Generate(seed, secretLua, secretTxt, writePath)
	o := Outcome{Seed: seed, Category: c.Category, Kind: c.Kind, Millis: ms}
	if show {
		o.Script = c.Script
	}
	text := buf.String()
	reason := "exit: " + fmt.Sprint(werr)
	for _, l := range strings.Split(text, "\n") {
		if strings.HasPrefix(l, "fatal error:") || strings.HasPrefix(l, "panic:") || strings.HasPrefix(l, "runtime: goroutine stack exceeds") || strings.Contains(l, "out of memory") {
			reason = l
			break
		}
	}
	if killed {
		o.Outcome = "blocked"
		o.Violation = &Finding{"C16", "T1-bounded-time", "T1/blocked/" + c.Category + "/" + kindClass(c.Kind), fmt.Sprintf("the process was still stuck in the call after %v and had to be killed: %s", childBound, clip(c.Script, 160))}
		return o
	}
	o.Outcome, o.Detail = "died", clip(reason, 200)
	cls := "other"
	switch {
	case strings.Contains(reason, "stack"):
		cls = "stack"
	case strings.Contains(reason, "memory"):
		cls = "memory"
	}
	o.Violation = &Finding{"C16", "P1-no-panic", "P1/died-" + cls + "/" + c.Category + "/" + kindClass(c.Kind), "the process running the script died (" + clip(reason, 160) + "): " + clip(c.Script, 160)}
	return o
}

// TestLuaWorker: loop over seeds (KSIM_SEED0, KSIM_STRIDE, KSIM_BUDGET_S / KSIM_COUNT), one child per seed, JSON lines to KSIM_OUT.
func TestLuaWorker(t *testing.T) {
	outPath := os.Getenv("KSIM_OUT")
	if outPath == "" {
		t.Skip("worker only")
	}
	seed0, _ := strconv.ParseInt(os.Getenv("KSIM_SEED0"), 10, 64)
	stride, _ := strconv.ParseInt(os.Getenv("KSIM_STRIDE"), 10, 64)
	if stride == 0 {
		stride = 1
	}
	budget, _ := strconv.ParseFloat(os.Getenv("KSIM_BUDGET_S"), 64)
	count, _ := strconv.Atoi(os.Getenv("KSIM_COUNT"))
	f, err := os.Create(outPath)
	if err != nil {
		t.Fatal(err)
	}
	defer f.Close()
	dir, err := os.MkdirTemp("", "lua16-")
	if err != nil {
		t.Fatal(err)
	}
	defer os.RemoveAll(dir)
	start := time.Now()
	for i := 0; ; i++ {
		if count > 0 && i >= count {
			break
		}
		if count == 0 && time.Since(start).Seconds() > budget {
			break
		}
		o := runChild(seed0+int64(i)*stride, dir, false)
		b, _ := json.Marshal(o)
		f.Write(append(b, '\n'))
	}
}

// TestLuaReplay: KSIM_REPLAY=<file with {"seed":..,"signature":..}>; prints REPRODUCED / NOT-REPRODUCED.
func TestLuaReplay(t *testing.T) {
	p := os.Getenv("KSIM_REPLAY")
	if p == "" {
		t.Skip("replay only")
	}
	raw, err := os.ReadFile(p)
	if err != nil {
		t.Fatal(err)
	}
	var rf struct {
		Seed      int64  `json:"seed"`
		Signature string `json:"signature"`
	}
	if err := json.Unmarshal(raw, &rf); err != nil {
		t.Fatal(err)
	}
	dir, _ := os.MkdirTemp("", "lua16-")
	defer os.RemoveAll(dir)
	o := runChild(rf.Seed, dir, true)
	fmt.Printf("script:\n%s\noutcome=%s detail=%s ms=%d\n", o.Script, o.Outcome, o.Detail, o.Millis)
	if o.Violation != nil && o.Violation.Signature == rf.Signature {
		fmt.Printf("REPRODUCED signature=%s detail=%s\n", o.Violation.Signature, clip(o.Violation.Detail, 300))
		return
	}
	sig := ""
	if o.Violation != nil {
		sig = o.Violation.Signature
	}
	fmt.Printf("NOT-REPRODUCED signature=%s (now: %q)\n", rf.Signature, sig)
}

var _ = sort.Strings
var _ = math.Abs
