package ksim

import (
	"context"
	"fmt"
	"k8s.io/apimachinery/pkg/labels"
	"strings"

	corev1 "k8s.io/api/core/v1"
	apierrors "k8s.io/apimachinery/pkg/api/errors"
	"k8s.io/apimachinery/pkg/api/meta"
	"k8s.io/apimachinery/pkg/runtime"
	"k8s.io/apimachinery/pkg/runtime/schema"
	"k8s.io/apimachinery/pkg/types"
	"sigs.k8s.io/controller-runtime/pkg/client"
)

// snapMap is a sorted map of immutable object snapshots (used as informer cache).
type snapMap struct {
	objs map[ObjKey]client.Object
	keys []ObjKey
}

func newSnapMap() *snapMap { return &snapMap{objs: map[ObjKey]client.Object{}} }

func (m *snapMap) set(k ObjKey, o client.Object) {
	if _, ok := m.objs[k]; !ok {
		i := 0
		for i < len(m.keys) && keyLess(m.keys[i], k) {
			i++
		}
		m.keys = append(m.keys, ObjKey{})
		copy(m.keys[i+1:], m.keys[i:])
		m.keys[i] = k
	}
	m.objs[k] = o
}

func (m *snapMap) del(k ObjKey) {
	if _, ok := m.objs[k]; !ok {
		return
	}
	delete(m.objs, k)
	for i := range m.keys {
		if m.keys[i] == k {
			m.keys = append(m.keys[:i], m.keys[i+1:]...)
			break
		}
	}
}

// Handle is an actor-tagged client.  When cache != nil reads are served from it
// (controller processes); otherwise from the authoritative store.
type Handle struct {
	sim     *Sim
	actor   string
	proc    *Process // nil for env/user
	faulty  bool     // writes of this handle are fault-eligible and pre-emptible
	noYield bool     // never park inside a call (the caller holds a lock of a third-party library)
}

var _ client.Client = &Handle{}

func (s *Sim) NewHandle(actor string, proc *Process, faulty bool) *Handle {
	return &Handle{sim: s, actor: actor, proc: proc, faulty: faulty}
}

func (h *Handle) Scheme() *runtime.Scheme     { return h.sim.Store.Scheme }
func (h *Handle) RESTMapper() meta.RESTMapper { return h.sim.mapper }

func (h *Handle) checkAlive() {
	if t := h.sim.cur; t != nil && t.poisoned {
		panic(poison)
	}
	if h.proc != nil && h.proc.down {
		panic(poison)
	}
}

func (h *Handle) recID() uint64 {
	if t := h.sim.cur; t != nil {
		return t.RecID
	}
	return 0
}

func (h *Handle) Get(_ context.Context, key types.NamespacedName, obj client.Object, _ ...client.GetOption) error {
	h.checkAlive()
	s := h.sim.Store
	if h.proc == nil {
		return s.Get(key, obj)
	}
	k, gvk, err := s.KeyOf(obj)
	if err != nil {
		return err
	}
	k.NS, k.Name = key.Namespace, key.Name
	stored := h.proc.cache.objs[k]
	if t := h.sim.cur; t != nil {
		rr := readRec{Obj: stored, Found: stored != nil}
		if _, ok := t.FirstRead[k]; !ok {
			t.FirstRead[k] = rr
		}
		t.LastRead[k] = rr
	}
	if stored == nil {
		return apierrors.NewNotFound(schema.GroupResource{Group: gvk.Group, Resource: strings.ToLower(gvk.Kind) + "s"}, key.Name)
	}
	return s.into(stored, obj, gvk)
}

func (h *Handle) List(_ context.Context, list client.ObjectList, opts ...client.ListOption) error {
	h.checkAlive()
	s := h.sim.Store
	if h.proc == nil {
		return s.List(list, opts...)
	}
	if err := listInto(s, h.proc.cache.objs, h.proc.cache.keys, list, opts...); err != nil {
		return err
	}
	// read log: remember which version of every listed object this task has seen
	if t := h.sim.cur; t != nil {
		gvk, _ := s.gvkOf(list)
		gk := schema.GroupKind{Group: gvk.Group, Kind: strings.TrimSuffix(gvk.Kind, "List")}
		{
			lo := client.ListOptions{}
			lo.ApplyOptions(opts)
			for _, k := range h.proc.cache.keys {
				if k.GK != gk || (lo.Namespace != "" && k.NS != lo.Namespace) {
					continue
				}
				if lo.LabelSelector != nil && !lo.LabelSelector.Matches(labels.Set(h.proc.cache.objs[k].GetLabels())) {
					continue
				}
				rr := readRec{Obj: h.proc.cache.objs[k], Found: true}
				if _, ok := t.FirstRead[k]; !ok {
					t.FirstRead[k] = rr
				}
				t.LastRead[k] = rr
			}
		}
	}
	return nil
}

type callInfo struct {
	Verb   string
	Key    ObjKey
	Status bool
	Body   string
}

// gate is the single yield + fault point for writes.  It returns (faultKind, ctx).
func (h *Handle) gate(ci callInfo) (string, writeCtx) {
	h.checkAlive()
	sim := h.sim
	ctx := writeCtx{Actor: h.actor, RecID: h.recID()}
	if !h.faulty || sim.ended {
		return "", ctx
	}
	// Pod patches that only carry the controller-revision-hash label are issued in Go map
	// order by the label patcher: no yield, no fault, so that their order cannot matter.
	if ci.Key.GK.Kind == "Pod" && ci.Verb == "patch" && strings.Contains(ci.Body, `"controller-revision-hash"`) && !strings.Contains(ci.Body, "rollout-id") {
		ctx.Commut = true
		return "", ctx
	}
	if sim.Cfg.Interleave && !h.noYield && sim.cur != nil && sim.T.Chance(sim.Cfg.PreemptPermyr) {
		sim.stat("sched.preempt")
		sim.park()
	}
	idx := sim.callIdx
	sim.callIdx++
	fault := ""
	if f, ok := sim.Cfg.Forced[idx]; ok {
		fault = f
	} else if sim.faultsActive() {
		c := sim.Cfg
		switch {
		case c.ErrBefore > 0 && sim.T.Chance(c.ErrBefore):
			fault = "err-before"
		case c.ErrAfter > 0 && sim.T.Chance(c.ErrAfter):
			fault = "err-after"
		case c.Conflict > 0 && (ci.Verb == "update" || ci.Verb == "update-status") && sim.T.Chance(c.Conflict):
			fault = "conflict"
		case c.CrashAtCall > 0 && sim.T.Chance(c.CrashAtCall):
			if sim.T.Next(2) == 0 {
				fault = "crash-before"
			} else {
				fault = "crash-after"
			}
		}
	}
	if fault != "" {
		sim.stat("fault." + fault)
		sim.lastFaultAt = sim.Steps
		if sim.EvLog != nil {
			sim.EvLog.add(fmt.Sprintf("F|%s|%s|%s|%s", fault, h.actor, ci.Verb, ci.Key))
		}
	}
	ctx.Fault = fault
	return fault, ctx
}

func injectedErr(kind string, k ObjKey) error {
	gr := schema.GroupResource{Group: k.GK.Group, Resource: strings.ToLower(k.GK.Kind) + "s"}
	switch kind {
	case "conflict":
		return apierrors.NewConflict(gr, k.Name, fmt.Errorf("injected conflict"))
	default:
		return apierrors.NewInternalError(fmt.Errorf("injected %s", kind))
	}
}

// write wraps one mutating call with the gate and the fault semantics.
func (h *Handle) write(ci callInfo, do func(ctx writeCtx) error) error {
	fault, ctx := h.gate(ci)
	switch fault {
	case "err-before", "conflict":
		return injectedErr(fault, ci.Key)
	case "crash-before":
		h.sim.crash(h.proc, "call")
		panic(poison)
	}
	err := do(ctx)
	switch fault {
	case "err-after":
		if err == nil {
			return injectedErr(fault, ci.Key)
		}
	case "crash-after":
		h.sim.crash(h.proc, "call")
		panic(poison)
	}
	return err
}

func (h *Handle) ci(verb string, obj client.Object, status bool, body string) callInfo {
	k, _, _ := h.sim.Store.KeyOf(obj)
	return callInfo{Verb: verb, Key: k, Status: status, Body: body}
}

func (h *Handle) Create(_ context.Context, obj client.Object, _ ...client.CreateOption) error {
	return h.write(h.ci("create", obj, false, ""), func(ctx writeCtx) error { return h.sim.Store.Create(ctx, obj) })
}

func (h *Handle) Delete(_ context.Context, obj client.Object, opts ...client.DeleteOption) error {
	return h.write(h.ci("delete", obj, false, ""), func(ctx writeCtx) error { return h.sim.Store.Delete(ctx, obj, opts...) })
}

func (h *Handle) Update(_ context.Context, obj client.Object, _ ...client.UpdateOption) error {
	return h.write(h.ci("update", obj, false, ""), func(ctx writeCtx) error { return h.sim.Store.Update(ctx, obj, false) })
}

func (h *Handle) Patch(_ context.Context, obj client.Object, p client.Patch, _ ...client.PatchOption) error {
	data, err := p.Data(obj)
	if err != nil {
		return err
	}
	return h.write(h.ci("patch", obj, false, string(data)), func(ctx writeCtx) error {
		return h.sim.Store.Patch(ctx, obj, p.Type(), data, false)
	})
}

func (h *Handle) DeleteAllOf(_ context.Context, obj client.Object, _ ...client.DeleteAllOfOption) error {
	panic("ksim: DeleteAllOf not supported")
}

type statusWriter struct{ h *Handle }

func (h *Handle) Status() client.SubResourceWriter { return &statusWriter{h} }
func (h *Handle) SubResource(sub string) client.SubResourceClient {
	if sub == "status" {
		return &statusWriter{h}
	}
	panic("ksim: subresource " + sub + " not supported")
}

func (w *statusWriter) Get(context.Context, client.Object, client.Object, ...client.SubResourceGetOption) error {
	panic("ksim: subresource get not supported")
}
func (w *statusWriter) Create(context.Context, client.Object, client.Object, ...client.SubResourceCreateOption) error {
	panic("ksim: subresource create not supported")
}
func (w *statusWriter) Update(_ context.Context, obj client.Object, _ ...client.SubResourceUpdateOption) error {
	h := w.h
	return h.write(h.ci("update-status", obj, true, ""), func(ctx writeCtx) error { return h.sim.Store.Update(ctx, obj, true) })
}
func (w *statusWriter) Patch(_ context.Context, obj client.Object, p client.Patch, _ ...client.SubResourcePatchOption) error {
	h := w.h
	data, err := p.Data(obj)
	if err != nil {
		return err
	}
	return h.write(h.ci("patch-status", obj, true, string(data)), func(ctx writeCtx) error {
		return h.sim.Store.Patch(ctx, obj, p.Type(), data, true)
	})
}

// restMapper: every kind is namespaced except the few cluster scoped ones we use.
func (s *Sim) restMapper() meta.RESTMapper {
	m := meta.NewDefaultRESTMapper(nil)
	for gvk := range s.Store.Scheme.AllKnownTypes() {
		if strings.HasSuffix(gvk.Kind, "List") {
			continue
		}
		scope := meta.RESTScopeNamespace
		switch gvk.Kind {
		case "MutatingWebhookConfiguration", "ValidatingWebhookConfiguration", "Namespace", "Node", "CustomResourceDefinition":
			scope = meta.RESTScopeRoot
		}
		m.Add(gvk, scope)
	}
	return m
}

var _ = corev1.Pod{}
