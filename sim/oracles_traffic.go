package ksim

import (
	"fmt"
	rutil "github.com/openkruise/rollouts/pkg/util"
	autoscalingv2 "k8s.io/api/autoscaling/v2"
	"reflect"
	"strconv"
	"strings"
	"time"

	kruisev1alpha1 "github.com/openkruise/kruise-api/apps/v1alpha1"
	appsv1 "k8s.io/api/apps/v1"
	corev1 "k8s.io/api/core/v1"
	netv1 "k8s.io/api/networking/v1"
	"k8s.io/apimachinery/pkg/apis/meta/v1/unstructured"
	"k8s.io/apimachinery/pkg/runtime/schema"
	"sigs.k8s.io/controller-runtime/pkg/client"
	gatewayv1beta1 "sigs.k8s.io/gateway-api/apis/v1beta1"

	"github.com/openkruise/rollouts/api/v1alpha1"
	"github.com/openkruise/rollouts/api/v1beta1"
)

const revKey = "pod-template-hash"

var gkVS = schema.GroupKind{Group: "networking.istio.io", Kind: "VirtualService"}
var gkHPA = schema.GroupKind{Group: "autoscaling", Kind: "HorizontalPodAutoscaler"}
var gkConfigMap = schema.GroupKind{Group: "", Kind: "ConfigMap"}
var gkTag = schema.GroupKind{Group: "example.io", Kind: "TrafficTag"}
var gkDR = schema.GroupKind{Group: "networking.istio.io", Kind: "DestinationRule"}

// route describes what one gateway object sends to the canary Service.
type route struct {
	Share int  // percentage of plain traffic sent to the canary (0 = none)
	Match bool // a header/query/path match sends requests to the canary
}

func (r route) positive() bool { return r.Share > 0 || r.Match }

// decodeIngress: canary Ingress annotations of the nginx class (documented nginx canary annotations).
func decodeIngress(ing *netv1.Ingress, canarySvc string) route {
	var r route
	if ing == nil || ing.DeletionTimestamp != nil {
		return r
	}
	targets := false
	for _, rule := range ing.Spec.Rules {
		if rule.HTTP == nil {
			continue
		}
		for _, p := range rule.HTTP.Paths {
			if p.Backend.Service != nil && p.Backend.Service.Name == canarySvc {
				targets = true
			}
		}
	}
	if !targets {
		return r
	}
	// documented canary annotations of the nginx / alb families: <prefix>/canary, /canary-weight, /canary-by-header, /canary-by-cookie
	isCanary := false
	for k, v := range ing.Annotations {
		switch {
		case strings.HasSuffix(k, "ingress.kubernetes.io/canary") && v == "true":
			isCanary = true
		}
	}
	if !isCanary {
		return r
	}
	for k, v := range ing.Annotations {
		switch {
		case strings.HasSuffix(k, "ingress.kubernetes.io/canary-weight"):
			if w, err := strconv.Atoi(v); err == nil {
				r.Share = w
			}
		case strings.HasSuffix(k, "ingress.kubernetes.io/canary-by-header") || strings.HasSuffix(k, "ingress.kubernetes.io/canary-by-cookie"):
			if v != "" {
				r.Match = true
			}
		}
	}
	return r
}

// decodeHTTPRoute: Gateway API semantics (weight nil = 1; a rule whose only backend is the canary is a match rule).
func decodeHTTPRoute(hr *gatewayv1beta1.HTTPRoute, stableSvc, canarySvc string) route {
	var r route
	if hr == nil {
		return r
	}
	for _, rule := range hr.Spec.Rules {
		var cw, total int
		hasStable, hasCanary := false, false
		for _, b := range rule.BackendRefs {
			w := 1
			if b.Weight != nil {
				w = int(*b.Weight)
			}
			if string(b.Name) == canarySvc {
				hasCanary = true
				cw += w
				total += w
			}
			if string(b.Name) == stableSvc {
				hasStable = true
				total += w // the split is between the stable and the canary backend; other backends are not the rollout's
			}
		}
		if !hasCanary || cw == 0 {
			continue
		}
		if hasStable {
			if s := cw * 100 / total; s > r.Share {
				r.Share = s
			}
			if cw*100/total == 0 {
				r.Share = 1
			}
		} else {
			r.Match = true
		}
	}
	return r
}

// decodeVirtualService: istio http routes (unstructured).
func decodeVirtualService(vs *unstructured.Unstructured, stableSvc, canarySvc string) route {
	var r route
	if vs == nil {
		return r
	}
	https, _, _ := unstructured.NestedSlice(vs.Object, "spec", "http")
	for _, h := range https {
		hm, ok := h.(map[string]interface{})
		if !ok {
			continue
		}
		routes, _, _ := unstructured.NestedSlice(hm, "route")
		cw, total, hasStable, hasCanary := 0, 0, false, false
		for _, rt := range routes {
			rm, ok := rt.(map[string]interface{})
			if !ok {
				continue
			}
			host, _, _ := unstructured.NestedString(rm, "destination", "host")
			w := 100
			if wv, found, _ := unstructured.NestedInt64(rm, "weight"); found {
				w = int(wv)
			} else if len(routes) > 1 {
				w = 0
			}
			total += w
			if host == canarySvc {
				hasCanary = true
				cw += w
			}
			if host == stableSvc {
				hasStable = true
			}
		}
		if !hasCanary || cw == 0 {
			continue
		}
		_, hasMatch := hm["match"]
		if hasStable && total > 0 {
			if s := cw * 100 / total; s > r.Share {
				r.Share = s
			}
		} else if hasMatch {
			r.Match = true
		} else {
			r.Share = 100
		}
	}
	return r
}

type trafficOracle struct {
	baseOracle
	sc                     *Scenario
	stableSvc              string
	canarySvc              string
	orig                   map[ObjKey]client.Object // user-owned network objects before the rollout (updated by user edits)
	claimed                bool                     // a BatchRelease has claimed the workload (control annotation) at some point
	brDeletedWithPartition bool
	netWriteAt             time.Time
	netWriteGen            int
	netWriteWhat           string
	pinnedThroughFull      bool // the stable Service was never un-pinned before that step started
	fullStep               bool // a step covering every replica was executed (stable pods legitimately all replaced)
	resetBR                bool // a continuous-release reset is in progress (gateway must be restored before capacity is released)
}

func (o *trafficOracle) Name() string { return "traffic" }

func newTrafficOracle(sc *Scenario) *trafficOracle {
	return &trafficOracle{sc: sc, stableSvc: sc.Name + "-svc", canarySvc: sc.Name + "-svc-canary", orig: map[ObjKey]client.Object{}}
}

// staleRouteRead: the reconcile that reports a step routed verified the gateway object in a cache that did not yet hold the
// latest version of it (typically the controller's own previous write).  Tag for T2 / H1 signatures.
func (o *trafficOracle) staleRouteRead(s *Sim) string {
	t := s.cur
	if t == nil {
		return ""
	}
	for _, k := range o.gatewayKeys() {
		cur := s.Store.Peek(k)
		rr, ok := t.LastRead[k]
		if !ok || cur == nil {
			continue
		}
		if !rr.Found || rr.Obj.(client.Object).GetResourceVersion() != cur.GetResourceVersion() {
			return "/stale-route-read"
		}
	}
	return ""
}

func (o *trafficOracle) gatewayKeys() []ObjKey {
	ns, n := o.sc.NS, o.sc.Name
	switch {
	case strings.HasPrefix(o.sc.Traffic, "ingress-"):
		return []ObjKey{{GK: gkIngress, NS: ns, Name: n + "-ing-canary"}}
	case o.sc.Traffic == "gateway":
		return []ObjKey{{GK: gkHTTPRoute, NS: ns, Name: n + "-route"}}
	case o.sc.Traffic == "istio":
		return []ObjKey{{GK: gkVS, NS: ns, Name: n + "-vs"}}
	case o.sc.Traffic == "custom-cm":
		return []ObjKey{{GK: gkTag, NS: ns, Name: n + "-tag"}}
	}
	return nil
}

func (o *trafficOracle) decode(obj client.Object) route {
	switch x := obj.(type) {
	case *netv1.Ingress:
		return decodeIngress(x, o.canarySvc)
	case *gatewayv1beta1.HTTPRoute:
		return decodeHTTPRoute(x, o.stableSvc, o.canarySvc)
	case *unstructured.Unstructured:
		if x.GetKind() == "VirtualService" {
			return decodeVirtualService(x, o.stableSvc, o.canarySvc)
		}
		if x.GetKind() == "TrafficTag" {
			var r route
			if c, found, _ := unstructured.NestedMap(x.Object, "spec", "canary"); found && c["to"] == o.canarySvc {
				if c["match"] == "header" {
					r.Match = true
				} else if w, err := strconv.Atoi(x.GetLabels()["canary-weight"]); err == nil {
					r.Share = w // this resource publishes the weight in a label
				}
			}
			return r
		}
	}
	return route{}
}

// current: what the authoritative gateway objects send to the canary right now.
func (o *trafficOracle) current(s *Sim) route {
	var r route
	for _, k := range o.gatewayKeys() {
		if obj := s.Store.Peek(k); obj != nil {
			x := o.decode(obj)
			if x.Share > r.Share {
				r.Share = x.Share
			}
			r.Match = r.Match || x.Match
		}
	}
	return r
}

func valueNature(r route, ws int, wm bool) string {
	switch {
	case r.Share != ws:
		return "share"
	case r.Match && !wm:
		return "leftover-match"
	case !r.Match && wm:
		return "match-missing"
	}
	return "value"
}

func stepTraffic(st v1beta1.CanaryStep) (share int, match bool) {
	if len(st.Matches) > 0 {
		if st.Traffic != nil {
			fmt.Sscanf(*st.Traffic, "%d", &share) // ingress providers: weight and match side by side
		}
		return share, true
	}
	if st.Traffic != nil {
		fmt.Sscanf(*st.Traffic, "%d", &share)
	}
	return
}

func (o *trafficOracle) rollout(s *Sim) *v1beta1.Rollout {
	if x := s.Store.Peek(ObjKey{GK: gkRollout, NS: o.sc.NS, Name: o.sc.Name + "-ro"}); x != nil {
		return x.(*v1beta1.Rollout)
	}
	return nil
}

func (o *trafficOracle) OnWrite(s *Sim, w *Write) {
	if !o.sc.owns(w.Key) && w.Key.GK != gkConfigMap {
		return
	}
	// exit fact: the last BatchRelease was deleted while its batchPartition was still set (its Finalize then keeps the
	// workload frozen by design; nobody is left to resume it)
	if w.Key.GK == gkBR {
		switch {
		case w.Verb == "create":
			o.brDeletedWithPartition = false
		case w.Verb == "delete" && w.Old != nil:
			o.brDeletedWithPartition = w.Old.(*v1beta1.BatchRelease).Spec.ReleasePlan.BatchPartition != nil
		}
	}
	if o.sc.Traffic == "" || o.sc.Traffic == "none" {
		return
	}
	// remember the user's own configuration
	if w.Actor == "setup" || w.Actor == "user" {
		switch w.Key.GK {
		case gkService, gkIngress, gkHTTPRoute, gkVS, gkDR, gkTag, gkConfigMap:
			if w.New != nil {
				o.orig[w.Key] = w.New
			}
		}
	}
	if isWorkloadGK(w.Key) && w.New != nil && controlledByUID(w.New) != "" && w.New.GetLabels()[canaryDepLabel] == "" {
		o.claimed = true
	}
	isGW := false
	for _, k := range o.gatewayKeys() {
		if k == w.Key {
			isGW = true
		}
	}
	if isGW && w.Actor == "rollout-ctrl" {
		o.checkGatewayWrite(s, w)
	}
	if w.Key.GK == gkRollout && w.Actor == "rollout-ctrl" && w.Old != nil && w.New != nil {
		o.checkLeaveTrafficRouting(s, w)
	}
	if w.Actor == "br-ctrl" && isWorkloadGK(w.Key) && w.New != nil && w.Old != nil {
		o.checkFirstStepPin(s, w)
	}
	o.checkVoid(s, w)
	o.checkTrafficBackFirst(s, w)
	o.checkGraceIsolation(s, w)
}

// ---- C03 T1: a positive share / match is written only in (k, StepTrafficRouting) with batch k ready
func (o *trafficOracle) checkGatewayWrite(s *Sim, w *Write) {
	var before, after route
	if w.Old != nil {
		before = o.decode(w.Old)
	}
	if w.New != nil && !w.Removed {
		after = o.decode(w.New)
	}
	s.probe("c03.gateway-writes")
	if !(after.Share > before.Share || (after.Match && !before.Match)) {
		return
	}
	s.probe("c03.gateway-raises")
	ro := asReadRollout(s.cur, ObjKey{GK: gkRollout, NS: o.sc.NS, Name: o.sc.Name + "-ro"})
	if ro == nil {
		return
	}
	sub := ro.Status.GetSubStatus()
	reason := progressingReason(ro)
	fam := o.sc.Family + "/" + o.sc.Traffic
	if sub == nil || ro.Status.Phase != v1beta1.RolloutPhaseProgressing {
		s.Violate("C03", "T1-order", "T1/phase/"+fam, w.Seq, "gateway %s now sends share=%d match=%v to the canary while the Rollout read was phase=%s", w.Key, after.Share, after.Match, ro.Status.Phase)
		return
	}
	if strings.HasSuffix(o.sc.Family, "bluegreen") && reason == v1alpha1.ProgressingReasonFinalising {
		return // blue-green promotion: all traffic goes to the new version before the old one is scaled down
	}
	steps := ro.Spec.Strategy.GetSteps()
	k := int(sub.CurrentStepIndex)
	if reason != v1alpha1.ProgressingReasonInRolling || sub.CurrentStepState != v1beta1.CanaryStepStateTrafficRouting || k < 1 || k > len(steps) {
		s.Violate("C03", "T1-order", "T1/state/"+fam, w.Seq, "gateway %s now sends share=%d match=%v to the canary while the Rollout read was %s step %d state %s", w.Key, after.Share, after.Match, reason, k, sub.CurrentStepState)
		return
	}
	ws, wm := stepTraffic(steps[k-1])
	if after.Share != ws && !(ws == 0 && wm) || (after.Match && !wm) {
		s.Violate("C03", "T1-value", "T1/"+valueNature(after, ws, wm)+"/"+fam, w.Seq, "gateway %s set to share=%d match=%v but step %d configures share=%d match=%v", w.Key, after.Share, after.Match, k, ws, wm)
	}
	// batch k (or a batch with the same replicas) ready, as this reconcile saw it
	var br *v1beta1.BatchRelease
	if rr, ok := s.cur.LastRead[ObjKey{GK: gkBR, NS: o.sc.NS, Name: o.sc.Name + "-ro"}]; ok && rr.Found {
		br = rr.Obj.(*v1beta1.BatchRelease)
	} else if x := s.Proc.cache.objs[ObjKey{GK: gkBR, NS: o.sc.NS, Name: o.sc.Name + "-ro"}]; x != nil {
		br = x.(*v1beta1.BatchRelease) // not read in this reconcile: judge on what the process knows
	}
	switch {
	case br == nil:
		s.Violate("C03", "T1-pods", "T1/nobr/"+fam, w.Seq, "traffic for step %d written although no BatchRelease exists (pods of the step were never upgraded)", k)
	default:
		b := int(br.Status.CanaryStatus.CurrentBatch)
		if b < len(br.Spec.ReleasePlan.Batches) && steps[k-1].Replicas != nil && br.Spec.ReleasePlan.Batches[b].CanaryReplicas != *steps[k-1].Replicas {
			s.Violate("C03", "T1-pods", "T1/batch/"+fam, w.Seq, "traffic for step %d (replicas %s) written while the ready batch %d has replicas %s", k, steps[k-1].Replicas.String(), b, br.Spec.ReleasePlan.Batches[b].CanaryReplicas.String())
		}
	}
}

// ---- C03 T2: when the step reports routed, the gateway encodes exactly the step's value
func (o *trafficOracle) checkLeaveTrafficRouting(s *Sim, w *Write) {
	rd := asReadRollout(s.cur, w.Key)
	nr := w.New.(*v1beta1.Rollout)
	if rd == nil {
		return
	}
	rs, ns := rd.Status.GetSubStatus(), nr.Status.GetSubStatus()
	if rs == nil || ns == nil || rs.CurrentStepIndex != ns.CurrentStepIndex || rs.CurrentStepState != v1beta1.CanaryStepStateTrafficRouting ||
		ns.CurrentStepState != v1beta1.CanaryStepStateMetricsAnalysis || progressingReason(nr) != v1alpha1.ProgressingReasonInRolling {
		return
	}
	steps := rd.Spec.Strategy.GetSteps()
	k := int(rs.CurrentStepIndex)
	if k < 1 || k > len(steps) {
		return
	}
	ws, wm := stepTraffic(steps[k-1])
	if ws == 0 && !wm {
		return
	}
	s.probe("c03.routed-reports")
	fam := o.sc.Family + "/" + o.sc.Traffic
	cur := o.current(s)
	if cur.Share != ws || cur.Match != wm {
		s.Violate("C03", "T2-exact", "T2/"+valueNature(cur, ws, wm)+"/"+fam+o.staleRouteRead(s), w.Seq, "step %d reported routed but the gateway sends share=%d match=%v to the canary; the step configures share=%d match=%v", k, cur.Share, cur.Match, ws, wm)
	}
	if rd.Spec.Strategy.DisableGenerateCanaryService() {
		return
	}
	cs, _ := s.Store.Peek(ObjKey{GK: gkService, NS: o.sc.NS, Name: o.canarySvc}).(*corev1.Service)
	ss, _ := s.Store.Peek(ObjKey{GK: gkService, NS: o.sc.NS, Name: o.stableSvc}).(*corev1.Service)
	if cs == nil || cs.Spec.Selector[revKey] == "" || cs.Spec.Selector[revKey] != ns.PodTemplateHash {
		s.Violate("C03", "T2-services", "T2/canary-svc/"+fam, w.Seq, "step %d reported routed but the canary Service is missing or does not select the canary revision %q", k, ns.PodTemplateHash)
	}
	if ss != nil && ss.Spec.Selector[revKey] != ns.StableRevision {
		s.Violate("C03", "T2-services", "T2/stable-svc/"+fam, w.Seq, "step %d reported routed but the stable Service is not pinned to the stable revision %q (selector %v)", k, ns.StableRevision, ss.Spec.Selector)
	}
}

// ---- C03 T3: first step with traffic: stable Service pinned before the first new pod
func (o *trafficOracle) checkFirstStepPin(s *Sim, w *Write) {
	eAfter, n, ok := s.exposure(w.New)
	if ok && n > 0 && eAfter >= n {
		if !o.fullStep {
			// was the stable Service still pinned when the step that replaces every pod was handed to the workload?
			ss, _ := s.Store.Peek(ObjKey{GK: gkService, NS: o.sc.NS, Name: o.stableSvc}).(*corev1.Service)
			o.pinnedThroughFull = ss != nil && ss.Spec.Selector[revKey] != ""
		}
		o.fullStep = true
	}
	eBefore, _, _ := s.exposure(w.Old)
	if !ok || eAfter <= eBefore || eAfter == 0 {
		return
	}
	ro := o.rollout(s)
	if ro == nil || ro.Status.Phase != v1beta1.RolloutPhaseProgressing || progressingReason(ro) != v1alpha1.ProgressingReasonInRolling {
		return
	}
	sub := ro.Status.GetSubStatus()
	steps := ro.Spec.Strategy.GetSteps()
	if sub == nil || sub.CurrentStepIndex != 1 || len(steps) == 0 || ro.Spec.Strategy.DisableGenerateCanaryService() {
		return
	}
	ws, wm := stepTraffic(steps[0])
	if ws == 0 && !wm {
		return
	}
	if v1beta1.IsRealPartition(ro) && steps[0].Replicas != nil && planned(*steps[0].Replicas, n) >= n {
		return // documented work-around: a partition step that replaces every pod un-pins the stable Service instead
	}
	if strings.Contains(s.firedEvents(), "scale") {
		return // the decision not to pin was taken for a different workload size
	}
	s.probe("c03.first-step-exposures")
	ss, _ := s.Store.Peek(ObjKey{GK: gkService, NS: o.sc.NS, Name: o.stableSvc}).(*corev1.Service)
	if ss != nil && ss.Spec.Selector[revKey] == "" {
		s.Violate("C03", "T3-pin", "T3/"+o.sc.Family+"/"+o.sc.Traffic, w.Seq, "first step configures traffic but new-revision pods are requested (%d -> %d) while the stable Service still selects every revision", eBefore, eAfter)
	}
}

// ---- C04: no request into a void (after every write = at every crash point)
func (o *trafficOracle) checkVoid(s *Sim, w *Write) {
	switch w.Key.GK {
	case gkService, gkIngress, gkHTTPRoute, gkVS, gkTag, gkPod:
	default:
		return
	}
	fam := o.sc.Family + "/" + o.sc.Traffic
	cur := o.current(s)
	ss, _ := s.Store.Peek(ObjKey{GK: gkService, NS: o.sc.NS, Name: o.stableSvc}).(*corev1.Service)
	if cur.positive() {
		s.probe("c04.canary-routed-snapshots")
		cs, _ := s.Store.Peek(ObjKey{GK: gkService, NS: o.sc.NS, Name: o.canarySvc}).(*corev1.Service)
		switch {
		case cs == nil || cs.DeletionTimestamp != nil:
			s.Violate("C04", "V1-canary-service", "V1/missing/"+fam, w.Seq, "after %s %s by %s the gateway sends share=%d match=%v to canary Service %s which does not exist", w.Verb, w.Key, w.Actor, cur.Share, cur.Match, o.canarySvc)
		case cs.Spec.Selector[revKey] == "":
			s.Violate("C04", "V1-canary-service", "V1/unselective/"+fam, w.Seq, "after %s %s by %s the gateway sends traffic to the canary Service but it selects no revision", w.Verb, w.Key, w.Actor)
		default:
			// the canary Service must select the new revision: at least one live pod carries every selector label
			// (not judged when the environment may take pods away on its own: pod kills, scale-in by the user)
			if s.Cfg.PodKill == 0 && !strings.Contains(s.firedEvents(), "scale") {
				match := 0
				for _, k := range s.Store.keys {
					if k.GK != gkPod || k.NS != o.sc.NS {
						continue
					}
					p := s.Store.objs[k].(*corev1.Pod)
					if p.DeletionTimestamp != nil {
						continue
					}
					ok := true
					for lk, lv := range cs.Spec.Selector {
						if p.Labels[lk] != lv {
							ok = false
							break
						}
					}
					if ok {
						match++
					}
				}
				if match == 0 {
					s.Violate("C04", "V1-canary-service", "V1/no-endpoints/"+fam, w.Seq, "after %s %s by %s the gateway sends share=%d match=%v to the canary Service whose selector %v matches no pod", w.Verb, w.Key, w.Actor, cur.Share, cur.Match, cs.Spec.Selector)
				}
			}
		}
	}
	if ss != nil && ss.Spec.Selector[revKey] == "" {
		o.pinnedThroughFull = false
	}
	if ss != nil && ss.Spec.Selector[revKey] != "" && cur.Share < 100 && s.Cfg.PodKill == 0 && !strings.Contains(s.firedEvents(), "scale") {
		s.probe("c04.pinned-snapshots")
		r := ss.Spec.Selector[revKey]
		total, have := 0, 0
		for _, k := range s.Store.keys {
			if k.GK != gkPod || k.NS != o.sc.NS {
				continue
			}
			p := s.Store.objs[k].(*corev1.Pod)
			if p.Labels["app"] != o.sc.Name || p.DeletionTimestamp != nil {
				continue
			}
			total++
			if p.Labels[revKey] == r {
				have++
			}
		}
		if total > 0 && have == 0 {
			if o.fullStep && o.pinnedThroughFull {
				fam += "/pinned-through-full-step"
			} else if o.fullStep {
				fam += "/after-full-step"
			}
			s.Violate("C04", "V2-stable-pods", "V2/"+fam, w.Seq, "after %s %s by %s the stable Service is pinned to revision %s and still receives %d%% of the traffic, but no pod of that revision exists (%d pods of other revisions)", w.Verb, w.Key, w.Actor, r, 100-cur.Share, total)
		}
	}
}

// ---- C10: rollback / supersession put traffic back on stable first
func (o *trafficOracle) checkTrafficBackFirst(s *Sim, w *Write) {
	if w.Actor != "rollout-ctrl" && w.Actor != "br-ctrl" {
		return
	}
	ro := o.rollout(s)
	if ro == nil {
		return
	}
	reason := progressingReason(ro)
	cancelling := ro.Status.Phase == v1beta1.RolloutPhaseProgressing && reason == v1alpha1.ProgressingReasonCancelling
	// continuous release: the Rollout controller deletes the BatchRelease while still InRolling
	superseding := false
	releases := ""
	switch {
	case w.Key.GK == gkBR && w.Verb == "delete" && w.Actor == "rollout-ctrl":
		releases = "BatchRelease deletion"
		superseding = ro.Status.Phase == v1beta1.RolloutPhaseProgressing && reason == v1alpha1.ProgressingReasonInRolling
	case w.Key.GK == gkBR && w.Actor == "rollout-ctrl" && w.New != nil && w.Old != nil &&
		w.New.(*v1beta1.BatchRelease).Spec.ReleasePlan.BatchPartition == nil && w.Old.(*v1beta1.BatchRelease).Spec.ReleasePlan.BatchPartition != nil:
		releases = "batchPartition removal"
	case w.Actor == "br-ctrl" && isWorkloadGK(w.Key) && w.Old != nil && w.New != nil && controlledByUID(w.Old) != "" && controlledByUID(w.New) == "":
		releases = "workload released from control"
	case w.Actor == "br-ctrl" && w.Key.GK == gkDeployment && w.Old != nil && w.Old.GetLabels()[canaryDepLabel] != "" &&
		len(w.Old.GetFinalizers()) > 0 && (w.New == nil || len(w.New.GetFinalizers()) == 0):
		releases = "canary Deployment released for deletion"
	}
	if releases == "" || !(cancelling || superseding) {
		return
	}
	s.probe("c10.capacity-release-writes")
	if cur := o.current(s); cur.positive() {
		kind := "rollback"
		if superseding {
			kind = "supersession"
		}
		s.Violate("C10", "R1-traffic-first", "R1/"+kind+"/"+o.sc.Family+"/"+o.sc.Traffic, w.Seq, "%s: %s (%s %s by %s) while the gateway still sends share=%d match=%v to the canary", kind, releases, w.Verb, w.Key, w.Actor, cur.Share, cur.Match)
	}
}

// ---- C19 I2: a rollout's grace period after removing its canary Service is not cut short by other rollouts.
// (Only judged when several rollouts share the process; a restart legitimately forgets the in-memory timer.)
func (o *trafficOracle) checkGraceIsolation(s *Sim, w *Write) {
	if len(s.Users) < 2 || w.Actor != "rollout-ctrl" {
		return
	}
	// every change of a network object (Services, gateway objects) by the Rollout controller starts a grace period that must
	// have run out before the Rollout leaves the (finalising) step in which the change was made
	switch w.Key.GK {
	case gkService, gkIngress, gkHTTPRoute, gkVS, gkDR, gkTag:
		// an unacknowledged write (error after commit, crash after commit) legitimately leaves no timer behind
		if w.Fault == "" {
			o.netWriteAt, o.netWriteGen, o.netWriteWhat = s.Now(), s.Proc.gen, w.Verb+" "+w.Key.String()
		} else {
			o.netWriteAt = time.Time{}
		}
		return
	}
	if w.Key.GK != gkRollout || w.Old == nil || w.New == nil {
		return
	}
	os, ns := w.Old.(*v1beta1.Rollout).Status.GetSubStatus(), w.New.(*v1beta1.Rollout).Status.GetSubStatus()
	if os == nil || ns == nil {
		return
	}
	left := ""
	switch {
	case os.FinalisingStep != ns.FinalisingStep && os.FinalisingStep != "":
		switch os.FinalisingStep {
		case v1beta1.FinalisingStepRestoreStableService, v1beta1.FinalisingStepRouteTrafficToStable, v1beta1.FinalisingStepRemoveCanaryService, v1beta1.FinalisingStepRouteTrafficToNew:
			left = string(os.FinalisingStep)
		}
	}
	if left == "" {
		if os.FinalisingStep != ns.FinalisingStep || os.CurrentStepState != ns.CurrentStepState || os.CurrentStepIndex != ns.CurrentStepIndex {
			o.netWriteAt = time.Time{} // another step begins: earlier writes belong to the step that is over
		}
		return
	}
	ro := w.New.(*v1beta1.Rollout)
	grace := 0
	for _, t := range ro.Spec.Strategy.GetTrafficRouting() {
		if int(t.GracePeriodSeconds) > grace {
			grace = int(t.GracePeriodSeconds)
		}
	}
	s.probe("c19.grace-checks")
	if !o.netWriteAt.IsZero() && o.netWriteGen == s.Proc.gen && grace > 0 && s.Now().Sub(o.netWriteAt) < time.Duration(grace)*time.Second-50*time.Millisecond {
		s.Violate("C19", "I2-grace", "I2/"+o.sc.Family+"/"+o.sc.Traffic+"/"+left, w.Seq, "rollout %s/%s left %s %.1fs after its last change there (%s) although its grace period is %ds (other rollouts share the process)",
			o.sc.NS, o.sc.Name, left, s.Now().Sub(o.netWriteAt).Seconds(), o.netWriteWhat, grace)
	}
	o.netWriteAt = time.Time{}
}

// ---- C05: every exit path leaves the cluster as the user configured it
func (o *trafficOracle) OnEnd(s *Sim) {
	if s.EndReason != "quiescent" || o.sc.user == nil || !o.sc.user.Released {
		return
	}
	ro := o.rollout(s)
	if ro != nil && (ro.Status.Phase != v1beta1.RolloutPhaseHealthy && ro.Status.Phase != v1beta1.RolloutPhaseDisabled || ro.DeletionTimestamp != nil) {
		return // not at an exit
	}
	if ro != nil && ro.Spec.Disabled != (ro.Status.Phase == v1beta1.RolloutPhaseDisabled) {
		return
	}
	s.probe("c05.exits-checked")
	exit := "completed"
	switch {
	case ro == nil:
		exit = "deleted"
	case ro.Status.Phase == v1beta1.RolloutPhaseDisabled:
		exit = "disabled"
	case o.sc.user.Version == 1:
		exit = "rolled-back"
	}
	fam := o.sc.Family + "/" + exit
	if exit == "rolled-back" && ro != nil {
		if c := rutil.GetRolloutCondition(ro.Status, v1beta1.RolloutConditionSucceeded); c != nil && c.Status == corev1.ConditionTrue {
			// the rollback raced with the completion of the last step: the release was finalised as a success
			fam += "/finalised-as-success"
		}
	}
	if o.brDeletedWithPartition {
		fam += "/batchrelease-deleted-with-partition"
	} else if o.sc.user.ExitNoBR {
		fam += "/no-batchrelease-at-exit"
	} else if o.sc.user.ExitUnclaimed {
		fam += "/batchrelease-unclaimed-at-exit"
	}
	bad := func(what, format string, a ...interface{}) {
		s.Violate("C05", "X1-residue", "X1/"+what+"/"+fam, s.Store.seq, "after exit (%s): "+format, append([]interface{}{exit}, a...)...)
	}
	ns := o.sc.NS
	for _, k := range s.Store.keys {
		if k.NS != ns || !o.sc.owns(k) {
			continue
		}
		obj := s.Store.objs[k]
		switch {
		case k.GK == gkBR:
			bad("batchrelease", "BatchRelease %s still exists", k.Name)
		case k.GK == gkService && k.Name == o.canarySvc:
			bad("canary-service", "canary Service %s still exists", k.Name)
		case k.GK == gkIngress && strings.HasSuffix(k.Name, "-canary"):
			bad("canary-ingress", "canary Ingress %s still exists", k.Name)
		case k.GK == gkDeployment && obj.GetLabels()[canaryDepLabel] != "":
			bad("canary-deployment", "canary Deployment %s still exists", k.Name)
		}
	}
	wl := o.sc.user.getWorkload()
	if wl != nil {
		for _, a := range []string{inProgressAnno, controlAnno, v1alpha1.DeploymentStrategyAnnotation, v1beta1.OriginalDeploymentStrategyAnnotation} {
			if _, ok := wl.GetAnnotations()[a]; ok {
				bad("marker", "workload still carries annotation %s", a)
			}
		}
		if o.sc.HPA {
			if h, _ := s.Store.Peek(ObjKey{GK: gkHPA, NS: o.sc.NS, Name: o.sc.Name + "-hpa"}).(*autoscalingv2.HorizontalPodAutoscaler); h == nil {
				bad("hpa", "the user's HorizontalPodAutoscaler is gone")
			} else if h.Spec.ScaleTargetRef.Name != o.sc.Name {
				bad("hpa", "HorizontalPodAutoscaler still points at %q instead of the workload", h.Spec.ScaleTargetRef.Name)
			}
		}
		switch x := wl.(type) {
		case *appsv1.Deployment:
			if x.Spec.Paused {
				bad("paused", "Deployment is still paused")
			}
			orig := o.sc.buildWorkload().(*appsv1.Deployment)
			if x.Spec.Strategy.Type != orig.Spec.Strategy.Type || !reflect.DeepEqual(x.Spec.Strategy.RollingUpdate, orig.Spec.Strategy.RollingUpdate) {
				bad("strategy", "Deployment strategy is %s, the user configured %s", dumpJSON(x.Spec.Strategy), dumpJSON(orig.Spec.Strategy))
			}
			if x.Spec.MinReadySeconds != orig.Spec.MinReadySeconds || !reflect.DeepEqual(x.Spec.ProgressDeadlineSeconds, orig.Spec.ProgressDeadlineSeconds) {
				bad("strategy", "Deployment minReadySeconds/progressDeadlineSeconds not restored")
			}
			for _, f := range x.Finalizers {
				bad("finalizer", "Deployment still has finalizer %s", f)
			}
		case *kruisev1alpha1.CloneSet:
			orig := o.sc.buildWorkload().(*kruisev1alpha1.CloneSet)
			if x.Spec.UpdateStrategy.Paused {
				bad("paused", "CloneSet is still paused")
			}
			if p := x.Spec.UpdateStrategy.Partition; p != nil && planned(*p, int(*x.Spec.Replicas)) != 0 {
				bad("partition", "CloneSet partition is still %s", p.String())
			}
			if !reflect.DeepEqual(x.Spec.UpdateStrategy.MaxSurge, orig.Spec.UpdateStrategy.MaxSurge) || !reflect.DeepEqual(x.Spec.UpdateStrategy.MaxUnavailable, orig.Spec.UpdateStrategy.MaxUnavailable) ||
				x.Spec.MinReadySeconds != orig.Spec.MinReadySeconds {
				bad("strategy", "CloneSet maxSurge/maxUnavailable/minReadySeconds not restored: %s", dumpJSON(x.Spec.UpdateStrategy))
			}
		}
		// hand-over: every pod runs the desired revision
		want := fmt.Sprintf("app:v%d", o.sc.user.Version)
		for _, k := range s.Store.keys {
			if k.GK == gkPod && k.NS == ns {
				p := s.Store.objs[k].(*corev1.Pod)
				if p.Labels["app"] == o.sc.Name && p.DeletionTimestamp == nil && len(p.Spec.Containers) > 0 && p.Spec.Containers[0].Image != want && !o.sc.V2Fails {
					bad("revision", "pod %s still runs %s, the user wants %s", k.Name, p.Spec.Containers[0].Image, want)
					break
				}
			}
		}
	}
	// network objects back to the user's configuration
	for k, orig := range o.orig {
		cur := s.Store.Peek(k)
		if cur == nil {
			bad("network-missing", "%s was removed", k)
			continue
		}
		switch k.GK {
		case gkService:
			if !reflect.DeepEqual(cur.(*corev1.Service).Spec.Selector, orig.(*corev1.Service).Spec.Selector) {
				bad("service-selector", "Service %s selector is %v, the user configured %v", k.Name, cur.(*corev1.Service).Spec.Selector, orig.(*corev1.Service).Spec.Selector)
			}
		case gkIngress:
			if !reflect.DeepEqual(cur.(*netv1.Ingress).Spec, orig.(*netv1.Ingress).Spec) || !reflect.DeepEqual(cur.GetAnnotations(), orig.GetAnnotations()) {
				bad("ingress", "stable Ingress %s was modified", k.Name)
			}
		case gkHTTPRoute:
			c, og := cur.(*gatewayv1beta1.HTTPRoute).DeepCopy(), orig.(*gatewayv1beta1.HTTPRoute).DeepCopy()
			for _, hr := range []*gatewayv1beta1.HTTPRoute{c, og} {
				for i := range hr.Spec.Rules {
					for j := range hr.Spec.Rules[i].BackendRefs {
						if string(hr.Spec.Rules[i].BackendRefs[j].Name) == o.stableSvc {
							hr.Spec.Rules[i].BackendRefs[j].Weight = nil // documented: the stable backend weight is reset
						}
					}
				}
			}
			if !reflect.DeepEqual(c.Spec, og.Spec) {
				bad("httproute", "HTTPRoute %s differs from the user's: %s vs %s", k.Name, dumpJSON(c.Spec.Rules), dumpJSON(og.Spec.Rules))
			}
		case gkVS, gkDR, gkTag:
			cu, ou := cur.(*unstructured.Unstructured), orig.(*unstructured.Unstructured)
			if !reflect.DeepEqual(cu.Object["spec"], ou.Object["spec"]) || !reflect.DeepEqual(cu.GetAnnotations(), ou.GetAnnotations()) || !reflect.DeepEqual(cu.GetLabels(), ou.GetLabels()) {
				bad("custom", "%s %s differs from the user's configuration: spec=%s annotations=%v", k.GK.Kind, k.Name, dumpJSON(cu.Object["spec"]), cu.GetAnnotations())
			}
		}
	}
}
