//go:build race

package ksim

// C19, second half: "the process-wide helpers they share (grace timers, creation expectations, ... Lua runtime) are
// free of data races".  ksim proper runs one task at a time and hands over through channels, which gives the race
// detector a happens-before edge between any two tasks: it can never see a race there.  This lane is the opposite:
// K free-running goroutines, each the traffic-routing worker of its own rollout (own namespace, own provider), drive
// the repo's real trafficrouting.Manager - and through it the shared grace table, the Lua runtime and the providers -
// plus the shared creation-expectation table, against one thread-safe fake API client, in a -race build.
// The schedule is NOT controlled and a report does not replay step by step; Go's detector has no false positives, so
// a report is a violation of the clause and its text is the artefact.  Besides the detector, each worker's final
// objects must equal those of the same sequence run alone (functional isolation of the shared helpers).

import (
	"context"
	"crypto/sha1"
	"encoding/json"
	"fmt"
	"os"
	"sort"
	"strconv"
	"sync"
	"testing"
	"time"

	"github.com/openkruise/rollouts/api/v1beta1"
	"github.com/openkruise/rollouts/pkg/trafficrouting"
	"github.com/openkruise/rollouts/pkg/trafficrouting/network"
	custom "github.com/openkruise/rollouts/pkg/trafficrouting/network/customNetworkProvider"
	"github.com/openkruise/rollouts/pkg/trafficrouting/network/gateway"
	"github.com/openkruise/rollouts/pkg/trafficrouting/network/ingress"
	expectations "github.com/openkruise/rollouts/pkg/util/expectation"
	metav1 "k8s.io/apimachinery/pkg/apis/meta/v1"
	"k8s.io/apimachinery/pkg/types"
	"sigs.k8s.io/controller-runtime/pkg/client"
	"sigs.k8s.io/controller-runtime/pkg/client/fake"
)

func raceScenario(i int, seed uint64) *Scenario {
	t := NewTape(int64(seed*977 + uint64(i)*31 + 7))
	sc, _ := DrawScenario(t, "C03")
	sc.NS = fmt.Sprintf("r%d", i)
	sc.Traffic = []string{"ingress-nginx", "istio", "custom-cm", "gateway", "ingress-aliyun-alb", "istio"}[i%6]
	sc.GraceSec = 1
	sc.Events = nil
	for j := range sc.Steps {
		if sc.Steps[j].Weight < 0 && sc.Steps[j].Header == "" {
			sc.Steps[j].Weight = 10 + 10*j
		}
	}
	return sc
}

// driveTraffic: what the Rollout controller does with the manager over one release, without the rest of the controller.
func driveTraffic(cli client.Client, sc *Scenario, rounds int) (string, error) {
	ctx := context.Background()
	ro := sc.buildRollout()
	ro.UID = types.UID("uid-" + sc.NS)
	m := trafficrouting.NewTrafficRoutingManager(cli)
	steps := ro.Spec.Strategy.Canary.Steps
	until := func(f func() (bool, error)) error {
		for n := 0; n < 400; n++ {
			done, err := f()
			if err != nil {
				return err
			}
			if done {
				return nil
			}
			time.Sleep(20 * time.Millisecond)
		}
		return fmt.Errorf("no progress")
	}
	for r := 0; r < rounds; r++ {
		c := &trafficrouting.TrafficRoutingContext{Key: "race/" + sc.NS, Namespace: sc.NS, ObjectRef: ro.Spec.Strategy.Canary.TrafficRoutings,
			OwnerRef: *metav1.NewControllerRef(ro, v1beta1.SchemeGroupVersion.WithKind("Rollout")), RevisionLabelKey: "pod-template-hash",
			StableRevision: "stable" + sc.NS, CanaryRevision: fmt.Sprintf("canary%d", r), LastUpdateTime: &metav1.Time{Time: time.Now().Add(-time.Hour)}}
		if err := m.InitializeTrafficRouting(c); err != nil {
			return "", fmt.Errorf("initialize: %w", err)
		}
		for i := range steps {
			if steps[i].Traffic == nil && len(steps[i].Matches) == 0 {
				continue
			}
			c.Strategy = steps[i].TrafficRoutingStrategy
			c.LastUpdateTime = &metav1.Time{Time: time.Now().Add(-time.Hour)}
			if err := until(func() (bool, error) { return m.DoTrafficRouting(c) }); err != nil {
				return "", fmt.Errorf("step %d: %w", i+1, err)
			}
			// the BatchRelease side of a step: the shared creation-expectation table
			key := sc.NS + "/" + sc.Name
			expectations.ResourceExpectations.Expect(key, expectations.Create, fmt.Sprintf("pod-%d-%d", r, i))
			expectations.ResourceExpectations.SatisfiedExpectations(key)
			expectations.ResourceExpectations.Observe(key, expectations.Create, fmt.Sprintf("pod-%d-%d", r, i))
			expectations.ResourceExpectations.SatisfiedExpectations(key)
		}
		c.LastUpdateTime = &metav1.Time{Time: time.Now().Add(-time.Hour)}
		if err := until(func() (bool, error) { return m.FinalisingTrafficRouting(c) }); err != nil {
			return "", fmt.Errorf("finalising: %w", err)
		}
		expectations.ResourceExpectations.DeleteExpectations(sc.NS + "/" + sc.Name)
	}
	// digest of what is left in this rollout's namespace
	var parts []string
	for _, o := range sc.buildNetwork() {
		cur := o.DeepCopyObject().(client.Object)
		if err := cli.Get(ctx, client.ObjectKeyFromObject(o), cur); err != nil {
			parts = append(parts, fmt.Sprintf("%T/%s: %v", o, o.GetName(), err))
			continue
		}
		cur.SetResourceVersion("")
		cur.SetManagedFields(nil)
		b, _ := json.Marshal(cur)
		parts = append(parts, string(b))
	}
	sort.Strings(parts)
	h := sha1.Sum([]byte(fmt.Sprint(parts)))
	return fmt.Sprintf("%x", h[:6]), nil
}

// hammerProvider: the dense part.  The provider of this rollout is asked to apply alternating steps several hundred
// times without any grace waiting in between, so that Lua executions, conversions and route writes of the K workers
// overlap all the time.
func hammerProvider(cli client.Client, sc *Scenario, n int) error {
	ro := sc.buildRollout()
	ro.UID = types.UID("uid-" + sc.NS)
	ref := ro.Spec.Strategy.Canary.TrafficRoutings[0]
	owner := *metav1.NewControllerRef(ro, v1beta1.SchemeGroupVersion.WithKind("Rollout"))
	var np network.NetworkProvider
	var err error
	switch {
	case ref.CustomNetworkRefs != nil:
		np, err = custom.NewCustomController(cli, custom.Config{Key: "race/" + sc.NS, RolloutNs: sc.NS, CanaryService: ref.Service + "-canary", StableService: ref.Service, TrafficConf: ref.CustomNetworkRefs, OwnerRef: owner})
	case ref.Ingress != nil:
		np, err = ingress.NewIngressTrafficRouting(cli, ingress.Config{Key: "race/" + sc.NS, Namespace: sc.NS, CanaryService: ref.Service + "-canary", StableService: ref.Service, TrafficConf: ref.Ingress, OwnerRef: owner})
	case ref.Gateway != nil:
		np, err = gateway.NewGatewayTrafficRouting(cli, gateway.Config{Key: "race/" + sc.NS, Namespace: sc.NS, CanaryService: ref.Service + "-canary", StableService: ref.Service, TrafficConf: ref.Gateway})
	}
	if err != nil || np == nil {
		return fmt.Errorf("provider: %v", err)
	}
	ctx := context.Background()
	if err := np.Initialize(ctx); err != nil {
		return err
	}
	var strategies []*v1beta1.TrafficRoutingStrategy
	for i := range ro.Spec.Strategy.Canary.Steps {
		st := ro.Spec.Strategy.Canary.Steps[i]
		if st.Traffic != nil || len(st.Matches) > 0 {
			x := st.TrafficRoutingStrategy
			strategies = append(strategies, &x)
		}
	}
	if len(strategies) == 0 {
		return nil
	}
	for i := 0; i < n; i++ {
		if _, err := np.EnsureRoutes(ctx, strategies[i%len(strategies)]); err != nil {
			return fmt.Errorf("EnsureRoutes #%d: %w", i, err)
		}
	}
	_, err = np.Finalise(ctx)
	return err
}

func raceClient(scs []*Scenario) client.Client {
	var objs []client.Object
	for _, sc := range scs {
		objs = append(objs, sc.buildNetwork()...)
	}
	return fake.NewClientBuilder().WithScheme(simScheme).WithObjects(objs...).Build()
}

func TestRaceLane(t *testing.T) {
	if os.Getenv("KSIM_RACE") == "" {
		t.Skip("race lane only")
	}
	seed, _ := strconv.ParseUint(os.Getenv("KSIM_SEED0"), 10, 64)
	k, _ := strconv.Atoi(os.Getenv("KSIM_RACE_WORKERS"))
	if k == 0 {
		k = 6
	}
	rounds, _ := strconv.Atoi(os.Getenv("KSIM_RACE_ROUNDS"))
	if rounds == 0 {
		rounds = 2
	}
	hammer, _ := strconv.Atoi(os.Getenv("KSIM_RACE_HAMMER"))
	if hammer == 0 {
		hammer = 300
	}
	var scs []*Scenario
	for i := 0; i < k; i++ {
		scs = append(scs, raceScenario(i, seed))
	}
	// solo reference, one after the other, each on its own client
	solo := make([]string, k)
	for i, sc := range scs {
		c1 := raceClient([]*Scenario{sc})
		if err := hammerProvider(c1, sc, hammer); err != nil {
			t.Fatalf("HARNESS solo provider loop of worker %d (%s) failed: %v", i, sc.Traffic, err)
		}
		d, err := driveTraffic(c1, sc, rounds)
		if err != nil {
			t.Fatalf("HARNESS solo run of worker %d (%s) failed: %v", i, sc.Traffic, err)
		}
		solo[i] = d
	}
	// concurrent, one shared client, shared process-wide helpers
	cli := raceClient(scs)
	conc := make([]string, k)
	errs := make([]error, k)
	var wg sync.WaitGroup
	for i := range scs {
		wg.Add(1)
		go func(i int) {
			defer wg.Done()
			if errs[i] = hammerProvider(cli, scs[i], hammer); errs[i] != nil {
				return
			}
			conc[i], errs[i] = driveTraffic(cli, scs[i], rounds)
		}(i)
	}
	wg.Wait()
	bad := 0
	for i := range scs {
		if errs[i] != nil {
			fmt.Printf("RACELANE worker=%d provider=%s error=%v\n", i, scs[i].Traffic, errs[i])
			bad++
		} else if conc[i] != solo[i] {
			fmt.Printf("RACELANE worker=%d provider=%s digest concurrent=%s solo=%s\n", i, scs[i].Traffic, conc[i], solo[i])
			bad++
		}
	}
	fmt.Printf("RACELANE seed=%d workers=%d rounds=%d mismatches=%d\n", seed, k, rounds, bad)
	if bad > 0 {
		t.Fail()
	}
}
