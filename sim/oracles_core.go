package ksim

import (
	"encoding/json"
	"fmt"
	corev1 "k8s.io/api/core/v1"
	metav1 "k8s.io/apimachinery/pkg/apis/meta/v1"
	"math"
	"reflect"
	"strings"
	"time"

	kruisev1alpha1 "github.com/openkruise/kruise-api/apps/v1alpha1"
	appsv1 "k8s.io/api/apps/v1"
	"k8s.io/apimachinery/pkg/util/intstr"
	"sigs.k8s.io/controller-runtime/pkg/client"

	"github.com/openkruise/rollouts/api/v1alpha1"
	"github.com/openkruise/rollouts/api/v1beta1"
	rutil "github.com/openkruise/rollouts/pkg/util"
)

// ---------------------------------------------------------------------------
// arithmetic written from the documented meaning of the fields (never by calling the code under test)

// planned: number of pods a step/batch calls for on a workload of n pods.
func planned(v intstr.IntOrString, n int) int {
	var x int
	if v.Type == intstr.String {
		p := 0
		fmt.Sscanf(v.StrVal, "%d%%", &p)
		x = int(math.Ceil(float64(p) * float64(n) / 100.0))
	} else {
		x = int(v.IntVal)
	}
	if x > n {
		x = n
	}
	if x < 0 {
		x = 0
	}
	return x
}

// slack: integer content of the documented "<1% of the workload size" percent conversion error.
func slack(n int) int {
	s := int(math.Ceil(float64(n)/100.0)) - 1
	if s < 0 {
		s = 0
	}
	return s
}

const (
	controlAnno    = "batchrelease.rollouts.kruise.io/control-info"
	inProgressAnno = "rollouts.kruise.io/in-progressing"
	canaryDepLabel = "rollouts.kruise.io/canary-deployment"
)

func controlledByUID(o client.Object) string {
	info := o.GetAnnotations()[controlAnno]
	if info == "" {
		return ""
	}
	var ref struct {
		UID string `json:"uid"`
	}
	_ = json.Unmarshal([]byte(info), &ref)
	return ref.UID
}

// exposure returns how many pods the workload's own controller will run on the new revision
// given the update knobs in obj (semantics of the target controllers).
func (s *Sim) exposure(obj client.Object) (e, n int, ok bool) {
	switch w := obj.(type) {
	case *kruisev1alpha1.CloneSet:
		n = int(*w.Spec.Replicas)
		if w.Spec.UpdateStrategy.Paused {
			return 0, n, true
		}
		if w.Annotations[v1beta1.OriginalDeploymentStrategyAnnotation] != "" && controlledByUID(w) != "" && w.Spec.UpdateStrategy.Partition == nil {
			// blue-green in progress: maxSurge new pods are created, no old one is removed (maxUnavailable 0, new pods never available)
			us := w.Spec.UpdateStrategy
			if w.Spec.MinReadySeconds < v1beta1.MaxReadySeconds || scaled(us.MaxUnavailable, n, false, 0) > 0 {
				return n, n, true
			}
			e = scaled(us.MaxSurge, n, true, 0)
			if e > n {
				e = n
			}
			return e, n, true
		}
		if w.Spec.UpdateStrategy.Partition == nil {
			return n, n, true
		}
		keep := planned(*w.Spec.UpdateStrategy.Partition, n)
		return n - keep, n, true
	case *appsv1.Deployment:
		n = int(*w.Spec.Replicas)
		if stable := w.Labels[canaryDepLabel]; stable != "" {
			// canary Deployment: its replicas are the exposure; size reference is the stable Deployment
			e = n
			if so := s.Store.Peek(ObjKey{GK: gkDeployment, NS: w.Namespace, Name: stable}); so != nil {
				n = int(*so.(*appsv1.Deployment).Spec.Replicas)
			}
			return e, n, true
		}
		if anno := w.Annotations[v1alpha1.DeploymentStrategyAnnotation]; anno != "" {
			st := v1alpha1.DeploymentStrategy{}
			if json.Unmarshal([]byte(anno), &st) == nil && st.RollingStyle == v1alpha1.PartitionRollingStyle && w.Spec.Paused {
				if st.Paused {
					return 0, n, true
				}
				return planned(st.Partition, n), n, true
			}
		}
		if w.Spec.Paused {
			return 0, n, true
		}
		if w.Annotations[v1beta1.OriginalDeploymentStrategyAnnotation] != "" && controlledByUID(w) != "" {
			// blue-green in progress: new pods never become available (minReadySeconds = max) and maxUnavailable is 0,
			// so the native controller creates exactly maxSurge new pods and removes no old one
			if ru := w.Spec.Strategy.RollingUpdate; ru != nil && ru.MaxSurge != nil {
				e = scaled(ru.MaxSurge, n, true, 0)
				if w.Spec.MinReadySeconds < v1beta1.MaxReadySeconds || (ru.MaxUnavailable != nil && scaled(ru.MaxUnavailable, n, false, 0) > 0) {
					return n, n, true // not protected: the native controller may replace everything
				}
				if e > n {
					e = n
				}
				return e, n, true
			}
		}
		return n, n, true
	}
	return 0, 0, false
}

func isWorkloadGK(k ObjKey) bool {
	return k.GK == gkDeployment || k.GK == gkCloneSet
}

func progressingReason(ro *v1beta1.Rollout) string {
	if c := rutil.GetRolloutCondition(ro.Status, v1beta1.RolloutConditionProgressing); c != nil {
		return c.Reason
	}
	return ""
}

// rolloutForWorkload finds the authoritative Rollout referencing the workload key.
func (s *Sim) rolloutForWorkload(k ObjKey) *v1beta1.Rollout {
	for _, rk := range s.Store.Keys(gkRollout) {
		if rk.NS != k.NS {
			continue
		}
		ro := s.Store.Peek(rk).(*v1beta1.Rollout)
		if ro.Spec.WorkloadRef.Kind == k.GK.Kind && ro.Spec.WorkloadRef.Name == k.Name {
			return ro
		}
	}
	return nil
}

func asReadBR(t *Task, k ObjKey) *v1beta1.BatchRelease {
	if t == nil {
		return nil
	}
	if rr, ok := t.FirstRead[k]; ok && rr.Found {
		if br, ok := rr.Obj.(*v1beta1.BatchRelease); ok {
			return br
		}
	}
	return nil
}

func asReadRollout(t *Task, k ObjKey) *v1beta1.Rollout {
	if t == nil {
		return nil
	}
	if rr, ok := t.FirstRead[k]; ok && rr.Found {
		if ro, ok := rr.Obj.(*v1beta1.Rollout); ok {
			return ro
		}
	}
	return nil
}

// ---------------------------------------------------------------------------

type coreOracle struct {
	baseOracle
	sc *Scenario
	// image of the pod template that each canary revision recorded in the Rollout status stands for (as read by the
	// reconcile that recorded it)
	imgOf map[string]string
}

func (o *coreOracle) Name() string { return "core" }

func (o *coreOracle) OnWrite(s *Sim, w *Write) {
	if !o.sc.owns(w.Key) {
		return
	}
	switch {
	case w.Actor == "br-ctrl" && isWorkloadGK(w.Key) && w.New != nil:
		o.checkExposure(s, w)
	case w.Actor == "user" && isWorkloadGK(w.Key) && w.New != nil && w.Old != nil:
		o.checkScaleExposure(s, w)
	case w.Key.GK == gkRollout && w.New != nil && w.Old != nil && w.Actor == "rollout-ctrl":
		o.checkRolloutStatus(s, w)
	case w.Key.GK == gkPod && w.Old == nil && w.New != nil && strings.HasSuffix(o.sc.Family, "bluegreen"):
		// C10 R3: a blue-green release refuses supersession instead of mixing three versions
		imgs := map[string]bool{}
		for _, k := range s.Store.keys {
			if k.GK != gkPod || !o.sc.owns(k) {
				continue
			}
			p := s.Store.objs[k].(*corev1.Pod)
			if p.DeletionTimestamp == nil && len(p.Spec.Containers) > 0 {
				imgs[p.Spec.Containers[0].Image] = true
			}
		}
		s.probe("c10.bluegreen-pod-creations")
		if len(imgs) >= 3 {
			s.Violate("C10", "R3-three-versions", "R3/"+o.sc.Family, w.Seq, "blue-green release: pods of %d different versions run at the same time after pod %s was created", len(imgs), w.Key.Name)
		}
	case w.Key.GK == gkBR && w.New != nil:
		if w.Actor == "rollout-ctrl" {
			o.checkBRSpecWrite(s, w)
		} else if w.Actor == "br-ctrl" && w.Old != nil {
			o.checkBRStatusWrite(s, w)
		}
	}
}

// ---- C01 -------------------------------------------------------------------

func (o *coreOracle) checkExposure(s *Sim, w *Write) {
	eAfter, n, ok := s.exposure(w.New)
	if !ok {
		return
	}
	eBefore := 0
	claimed := false
	if w.Old != nil {
		eBefore, _, _ = s.exposure(w.Old)
		claimed = controlledByUID(w.Old) != "" && controlledByUID(w.Old) == controlledByUID(w.New)
	}
	s.probe("c01.exposure-writes")
	// the BatchRelease this reconcile works for, as it read it
	t := s.cur
	var br *v1beta1.BatchRelease
	if t != nil {
		for k, rr := range t.FirstRead {
			if k.GK == gkBR && rr.Found && o.sc.owns(k) {
				br = rr.Obj.(*v1beta1.BatchRelease)
			}
		}
	}
	if br == nil {
		return
	}
	plan := br.Spec.ReleasePlan
	if plan.BatchPartition == nil || br.DeletionTimestamp != nil || br.Status.Phase == v1beta1.RolloutPhaseFinalizing || br.Status.Phase == v1beta1.RolloutPhaseCompleted {
		return // promotion / cancellation: not "in progress"
	}
	if len(plan.Batches) == 0 {
		return
	}
	b := int(*plan.BatchPartition)
	if b >= len(plan.Batches) {
		b = len(plan.Batches) - 1
	}
	if b < 0 {
		b = 0
	}
	allow := planned(plan.Batches[b].CanaryReplicas, n) + slack(n)
	if nn := br.Status.CanaryStatus.NoNeedUpdateReplicas; nn != nil && *nn > 0 {
		// rollback in batches: pods already on the target revision do not count against the step
		allow = int(*nn) + planned(plan.Batches[b].CanaryReplicas, n-int(*nn)) + slack(n)
	}
	if eAfter > allow && eAfter > eBefore {
		s.Violate("C01", "E1-bound", fmt.Sprintf("E1/%s/%s", o.sc.Family, w.Key.GK.Kind), w.Seq,
			"BatchRelease controller raised exposure of %s to %d pods (was %d) but batchPartition=%d allows %d of %d (+%d slack); batches=%s",
			w.Key, eAfter, eBefore, *plan.BatchPartition, planned(plan.Batches[b].CanaryReplicas, n), n, slack(n), dumpJSON(plan.Batches))
	}
	// (a plan edit by the user that lowers the running step is a user cause)
	if claimed && br.Status.Phase == v1beta1.RolloutPhaseProgressing && eAfter < eBefore && !strings.Contains(s.firedEvents(), "edit-plan") {
		s.Violate("C01", "E2-monotone", fmt.Sprintf("E2/%s/%s", o.sc.Family, w.Key.GK.Kind), w.Seq,
			"BatchRelease controller moved %s back toward the old revision while progressing: exposure %d -> %d", w.Key, eBefore, eAfter)
	}
}

// E4: when the workload is scaled mid-release the bound holds for percentage steps relative to the new size,
// at once: the update knob the controllers left on the workload must itself scale with it.
func (o *coreOracle) checkScaleExposure(s *Sim, w *Write) {
	eB, nB, ok1 := s.exposure(w.Old)
	eA, nA, ok2 := s.exposure(w.New)
	if !ok1 || !ok2 || nA <= nB || controlledByUID(w.New) == "" {
		return
	}
	br, _ := s.Store.Peek(ObjKey{GK: gkBR, NS: o.sc.NS, Name: o.sc.Name + "-ro"}).(*v1beta1.BatchRelease)
	if br == nil || br.Spec.ReleasePlan.BatchPartition == nil || br.Status.Phase != v1beta1.RolloutPhaseProgressing || br.DeletionTimestamp != nil || string(br.UID) != controlledByUID(w.New) {
		return
	}
	plan := br.Spec.ReleasePlan
	b := int(br.Status.CanaryStatus.CurrentBatch)
	if b >= len(plan.Batches) || plan.Batches[b].CanaryReplicas.Type != intstr.String || br.Status.CanaryStatus.NoNeedUpdateReplicas != nil {
		return
	}
	if eB > planned(plan.Batches[b].CanaryReplicas, nB)+slack(nB) {
		return // was not within the step before the scale either (e.g. still being upgraded): not attributable to scaling
	}
	s.probe("c01.scale-writes")
	if allow := planned(plan.Batches[b].CanaryReplicas, nA) + slack(nA); eA > allow {
		// which kind of knob was left on the workload: a percentage is at least meant to scale (its rounding does not),
		// an absolute number cannot
		knob := "abs"
		switch x := w.New.(type) {
		case *kruisev1alpha1.CloneSet:
			if p := x.Spec.UpdateStrategy.Partition; p != nil && p.Type == intstr.String {
				knob = "pct"
			}
		case *appsv1.Deployment:
			st := v1alpha1.DeploymentStrategy{}
			if json.Unmarshal([]byte(x.Annotations[v1alpha1.DeploymentStrategyAnnotation]), &st) == nil && st.Partition.Type == intstr.String {
				knob = "pct"
			}
		}
		s.Violate("C01", "E4-scale", fmt.Sprintf("E4/%s/%s/excess=%d", o.sc.Family, knob, min(eA-allow, 2)), w.Seq, "scaling %s from %d to %d replicas lets %d pods update while the current step %s allows %d of %d: the update setting left by the controllers does not scale with the workload",
			w.Key, nB, nA, eA, plan.Batches[b].CanaryReplicas.String(), allow, nA)
	}
}

func dumpJSON(v interface{}) string {
	b, _ := json.Marshal(v)
	return string(b)
}

// E3 + G6: BatchRelease spec writes by the Rollout controller.
func (o *coreOracle) checkBRSpecWrite(s *Sim, w *Write) {
	nb := w.New.(*v1beta1.BatchRelease)
	var ob *v1beta1.BatchRelease
	if w.Old != nil {
		ob = w.Old.(*v1beta1.BatchRelease)
		if reflect.DeepEqual(ob.Spec, nb.Spec) {
			return
		}
	}
	rk := ObjKey{GK: gkRollout, NS: w.Key.NS, Name: w.Key.Name}
	ro := asReadRollout(s.cur, rk)
	if ro == nil {
		return
	}
	reason := progressingReason(ro)
	bp := nb.Spec.ReleasePlan.BatchPartition
	if bp == nil {
		s.probe("c02.promote-writes")
		okPhase := ro.Status.Phase == v1beta1.RolloutPhaseTerminating || ro.Status.Phase == v1beta1.RolloutPhaseDisabling ||
			(ro.Status.Phase == v1beta1.RolloutPhaseProgressing && (reason == v1alpha1.ProgressingReasonFinalising || reason == v1alpha1.ProgressingReasonCancelling))
		if !okPhase {
			s.Violate("C02", "G6-promotion", "G6/"+o.sc.Family, w.Seq, "Rollout controller removed batchPartition (promotion) while the Rollout it read was in phase=%s reason=%s step=%d state=%s",
				ro.Status.Phase, reason, ro.Status.CurrentStepIndex, ro.Status.CurrentStepState)
		}
		return
	}
	sub := ro.Status.GetSubStatus()
	if sub == nil {
		return
	}
	s.probe("c01.batchpartition-writes")
	raised := ob == nil || ob.Spec.ReleasePlan.BatchPartition == nil || *bp > *ob.Spec.ReleasePlan.BatchPartition
	// a pending jump makes the controller move the cursor within the same reconcile: the new cursor is what it persists next
	idx := sub.CurrentStepIndex
	if *bp > idx-1 && raised {
		s.Violate("C01", "E3-authorisation", "E3/"+o.sc.Family, w.Seq,
			"Rollout controller set batchPartition=%d while the Rollout it read was on step %d (state %s): batches beyond the current step are released", *bp, idx, sub.CurrentStepState)
	}
	if raised && ob != nil && ro.Spec.Strategy.Paused && (reason == v1alpha1.ProgressingReasonInRolling || reason == v1alpha1.ProgressingReasonPaused) {
		s.Violate("C02", "G5-paused", "G5/bp/"+o.sc.Family, w.Seq, "Rollout controller raised batchPartition to %d although the Rollout it read is paused", *bp)
	}
}

// ---- C02 -------------------------------------------------------------------

var nextState = map[v1beta1.CanaryStepState][]v1beta1.CanaryStepState{
	v1beta1.CanaryStepStateInit:            {v1beta1.CanaryStepStateUpgrade},
	v1beta1.CanaryStepStateUpgrade:         {v1beta1.CanaryStepStateTrafficRouting, v1beta1.CanaryStepStateMetricsAnalysis},
	v1beta1.CanaryStepStateTrafficRouting:  {v1beta1.CanaryStepStateMetricsAnalysis},
	v1beta1.CanaryStepStateMetricsAnalysis: {v1beta1.CanaryStepStatePaused},
	v1beta1.CanaryStepStatePaused:          {v1beta1.CanaryStepStateReady},
	v1beta1.CanaryStepStateReady:           {v1beta1.CanaryStepStateCompleted},
}

func stepRank(st v1beta1.CanaryStepState) int {
	switch st {
	case v1beta1.CanaryStepStateInit:
		return 0
	case v1beta1.CanaryStepStateUpgrade:
		return 1
	case v1beta1.CanaryStepStateTrafficRouting:
		return 2
	case v1beta1.CanaryStepStateMetricsAnalysis:
		return 3
	case v1beta1.CanaryStepStatePaused:
		return 4
	case v1beta1.CanaryStepStateReady:
		return 5
	case v1beta1.CanaryStepStateCompleted:
		return 6
	}
	return -1
}

func nextBatchIndex(ro *v1beta1.Rollout, cur int32) int32 {
	if cur >= int32(len(ro.Spec.Strategy.GetSteps())) {
		return -1
	}
	return cur + 1
}

func (o *coreOracle) checkRolloutStatus(s *Sim, w *Write) {
	nr := w.New.(*v1beta1.Rollout)
	if reflect.DeepEqual(w.Old.(*v1beta1.Rollout).Status, nr.Status) {
		return
	}
	rd := asReadRollout(s.cur, w.Key)
	if rd == nil {
		return
	}
	s.probe("c02.status-writes")
	fam := o.sc.Family
	rs, ns := rd.Status.GetSubStatus(), nr.Status.GetSubStatus()
	rReason, nReason := progressingReason(rd), progressingReason(nr)
	paused := rd.Spec.Strategy.Paused && rd.Status.Phase == v1beta1.RolloutPhaseProgressing && (rReason == v1alpha1.ProgressingReasonInRolling || rReason == v1alpha1.ProgressingReasonPaused)
	planChanged := rs != nil && rs.RolloutHash != "" && rs.RolloutHash != rd.Annotations[rutil.RolloutHashAnnotation]
	// the hash annotation may also be (re)computed by this very reconcile before it looks at the plan
	if rs != nil && rs.RolloutHash != "" && nr.Annotations[rutil.RolloutHashAnnotation] != rs.RolloutHash {
		planChanged = true
	}

	// C10 R2: a reconcile that has seen the template reverted, or replaced by a newer one, never finalises the release
	// as a success (rollback ends "not succeeded", supersession restarts from step one)
	if t := s.cur; t != nil {
		if rr, ok := t.LastRead[ObjKey{GK: workloadGK(o.sc), NS: o.sc.NS, Name: o.sc.Name}]; ok && rr.Found {
			if tpl := workloadTemplate(rr.Obj.(client.Object)); tpl != nil && len(tpl.Spec.Containers) > 0 {
				img := tpl.Spec.Containers[0].Image
				if o.imgOf == nil {
					o.imgOf = map[string]string{}
				}
				canaryRev := func(r *v1beta1.Rollout) string {
					if r.Status.IsSubStatusEmpty() {
						return ""
					}
					return r.Status.GetCanaryRevision()
				}
				if cr := canaryRev(nr); cr != "" && cr != canaryRev(rd) {
					o.imgOf[cr] = img
				}
				if rd.Status.Phase == v1beta1.RolloutPhaseProgressing && rReason == v1alpha1.ProgressingReasonInRolling && nReason == v1alpha1.ProgressingReasonFinalising && !rd.Spec.Strategy.Paused {
					s.probe("c10.finalising-decisions")
					if rel, ok := o.imgOf[canaryRev(rd)]; ok && rel != img {
						kind := "supersession"
						if img == "app:v1" {
							kind = "rollback"
						}
						s.Violate("C10", "R2-outcome", "R2/"+kind+"/"+fam, w.Seq, "the reconcile read the workload with template %s while releasing %s (revision %s) and still moved the Rollout to Finalising (success path)", img, rel, canaryRev(rd))
					}
				}
			}
		}
	}

	// G5: paused rollouts make no forward progress
	if paused && rs != nil && ns != nil {
		fwd := ns.CurrentStepIndex > rs.CurrentStepIndex || (ns.CurrentStepIndex == rs.CurrentStepIndex && stepRank(ns.CurrentStepState) > stepRank(rs.CurrentStepState))
		if fwd || nReason == v1alpha1.ProgressingReasonFinalising {
			s.Violate("C02", "G5-paused", "G5/status/"+fam, w.Seq, "paused Rollout moved forward: read (%d,%s,%s) wrote (%d,%s,%s)",
				rs.CurrentStepIndex, rs.CurrentStepState, rReason, ns.CurrentStepIndex, ns.CurrentStepState, nReason)
		}
	}
	if rs == nil || ns == nil {
		return
	}
	if rd.Status.Phase != v1beta1.RolloutPhaseProgressing || rReason != v1alpha1.ProgressingReasonInRolling || nReason != v1alpha1.ProgressingReasonInRolling {
		return // (re)initialisation, reset, cancel, finalise: the cursor is rebuilt, not advanced
	}
	if planChanged {
		s.probe("c02.plan-change-seen")
		return
	}
	// rollback in batches / continuous release restart from step one
	if ns.CurrentStepIndex == 1 && ns.CurrentStepState == v1beta1.CanaryStepStateInit && rs.CurrentStepIndex != 1 &&
		nr.Status.GetCanaryRevision() != rd.Status.GetCanaryRevision() {
		return
	}
	steps := rd.Spec.Strategy.GetSteps()
	jumpPending := rs.NextStepIndex != nextBatchIndex(rd, rs.CurrentStepIndex) && rs.NextStepIndex > 0
	if jumpPending && ns.CurrentStepIndex == rs.NextStepIndex && (ns.CurrentStepIndex != rs.CurrentStepIndex ||
		ns.CurrentStepState == v1beta1.CanaryStepStateTrafficRouting || ns.CurrentStepState == v1beta1.CanaryStepStateInit) {
		s.probe("c02.jump") // includes a jump onto the current step (same replicas: straight to traffic routing)
		// G6: a jump may skip the upgrade of its target only when the target asks for exactly the pods that are there
		// already, i.e. the same replicas as the step that was left
		si, di := int(rs.CurrentStepIndex), int(ns.CurrentStepIndex)
		if ns.CurrentStepState == v1beta1.CanaryStepStateTrafficRouting && si >= 1 && si <= len(steps) && di >= 1 && di <= len(steps) {
			a, b := steps[si-1].Replicas, steps[di-1].Replicas
			if a != nil && b != nil && (a.Type != b.Type || a.IntVal != b.IntVal || a.StrVal != b.StrVal) {
				s.Violate("C02", "G6-jump", "G6/skip-upgrade/"+fam, w.Seq, "jump from step %d (replicas %s) to step %d (replicas %s) went straight to StepTrafficRouting: the target's pods were never upgraded or reported ready",
					si, a.String(), di, b.String())
			}
		}
		return
	}
	if ns.CurrentStepIndex != rs.CurrentStepIndex {
		switch {
		case jumpPending && ns.CurrentStepIndex == rs.NextStepIndex:
			s.probe("c02.jump")
		case ns.CurrentStepIndex == rs.CurrentStepIndex+1 && rs.CurrentStepState == v1beta1.CanaryStepStateReady:
			s.probe("c02.step-advance")
		default:
			s.Violate("C02", "G1-cursor", "G1/"+fam, w.Seq, "step index changed %d -> %d from state %s without approval/jump/plan edit (nextStepIndex read=%d)",
				rs.CurrentStepIndex, ns.CurrentStepIndex, rs.CurrentStepState, rs.NextStepIndex)
		}
		return
	}
	if ns.CurrentStepState == rs.CurrentStepState {
		return
	}
	// G4: order of sub-states.  BeforeStepUpgrade falls through into StepUpgrade within one reconcile, so
	// Init -> X is legal whenever Upgrade -> X is (and is then judged like leaving StepUpgrade).
	from := rs.CurrentStepState
	legal := false
	for _, x := range nextState[from] {
		if x == ns.CurrentStepState {
			legal = true
		}
	}
	if !legal && from == v1beta1.CanaryStepStateInit {
		for _, x := range nextState[v1beta1.CanaryStepStateUpgrade] {
			if x == ns.CurrentStepState {
				legal = true
				from = v1beta1.CanaryStepStateUpgrade
			}
		}
	}
	if !legal {
		s.Violate("C02", "G4-order", fmt.Sprintf("G4/%s/%s->%s", fam, rs.CurrentStepState, ns.CurrentStepState), w.Seq,
			"step %d sub-state %s -> %s is not a legal transition", rs.CurrentStepIndex, rs.CurrentStepState, ns.CurrentStepState)
		return
	}
	idx := int(rs.CurrentStepIndex)
	if idx < 1 || idx > len(steps) {
		return
	}
	step := steps[idx-1]
	switch from {
	case v1beta1.CanaryStepStatePaused:
		// G2: pause satisfied
		last100 := idx == len(steps) && step.Replicas != nil && step.Replicas.StrVal == "100%"
		if last100 {
			break
		}
		if step.Pause.Duration == nil {
			s.Violate("C02", "G2-pause", "G2/manual/"+fam, w.Seq, "controller left StepPaused of step %d which requires manual approval", idx)
			break
		}
		if rs.LastUpdateTime != nil {
			due := rs.LastUpdateTime.Add(time.Duration(*step.Pause.Duration) * time.Second)
			if s.Now().Before(due) {
				s.Violate("C02", "G2-pause", "G2/duration/"+fam, w.Seq, "controller left StepPaused of step %d at %s, before its %ds pause (since %s) elapsed",
					idx, s.Now().Format("15:04:05.000"), *step.Pause.Duration, rs.LastUpdateTime.Format("15:04:05"))
			}
		}
	case v1beta1.CanaryStepStateUpgrade:
		// G3: batch k upgraded and ready, as this reconcile saw it
		br := asReadBR(s.cur, ObjKey{GK: gkBR, NS: w.Key.NS, Name: w.Key.Name})
		if rr, ok := s.cur.LastRead[ObjKey{GK: gkBR, NS: w.Key.NS, Name: w.Key.Name}]; ok && rr.Found {
			br = rr.Obj.(*v1beta1.BatchRelease)
		}
		switch {
		case br == nil:
			s.Violate("C02", "G3-upgrade", "G3/nobr/"+fam, w.Seq, "step %d left StepUpgrade although the reconcile saw no BatchRelease", idx)
		case br.Spec.ReleasePlan.BatchPartition == nil || int(*br.Spec.ReleasePlan.BatchPartition) != idx-1:
			s.Violate("C02", "G3-upgrade", "G3/partition/"+fam, w.Seq, "step %d left StepUpgrade with BatchRelease batchPartition=%s", idx, dumpJSON(br.Spec.ReleasePlan.BatchPartition))
		case br.Status.ObservedGeneration != br.Generation:
			s.Violate("C02", "G3-upgrade", "G3/generation/"+fam, w.Seq, "step %d left StepUpgrade with BatchRelease generation %d observed %d", idx, br.Generation, br.Status.ObservedGeneration)
		case br.Status.CanaryStatus.CurrentBatchState != v1beta1.ReadyBatchState || int(br.Status.CanaryStatus.CurrentBatch)+1 < idx:
			s.Violate("C02", "G3-upgrade", "G3/notready/"+fam, w.Seq, "step %d left StepUpgrade with BatchRelease batch=%d state=%s", idx, br.Status.CanaryStatus.CurrentBatch, br.Status.CanaryStatus.CurrentBatchState)
		default:
			if len(br.Spec.ReleasePlan.Batches) >= idx && step.Replicas != nil && br.Spec.ReleasePlan.Batches[idx-1].CanaryReplicas != *step.Replicas {
				s.Violate("C02", "G3-upgrade", "G3/plan/"+fam, w.Seq, "step %d left StepUpgrade with a BatchRelease plan (%s) that differs from the step (%s)", idx,
					br.Spec.ReleasePlan.Batches[idx-1].CanaryReplicas.String(), step.Replicas.String())
			}
		}
	}
}

// ---- C11 -------------------------------------------------------------------

func (o *coreOracle) workloadAsRead(s *Sim, br *v1beta1.BatchRelease) (stable client.Object, canary *appsv1.Deployment) {
	t := s.cur
	if t == nil {
		return nil, nil
	}
	ref := br.Spec.WorkloadRef
	var gk = gkDeployment
	if ref.Kind == "CloneSet" {
		gk = gkCloneSet
	}
	if rr, ok := t.LastRead[ObjKey{GK: gk, NS: br.Namespace, Name: ref.Name}]; ok && rr.Found {
		stable = rr.Obj.(client.Object)
	}
	for k, rr := range t.LastRead {
		if k.GK == gkDeployment && rr.Found {
			d := rr.Obj.(*appsv1.Deployment)
			if d.Labels[canaryDepLabel] == ref.Name && d.Namespace == br.Namespace && d.DeletionTimestamp == nil {
				if canary == nil || d.CreationTimestamp.After(canary.CreationTimestamp.Time) || (d.CreationTimestamp.Equal(&canary.CreationTimestamp) && d.Name > canary.Name) {
					canary = d
				}
			}
		}
	}
	return
}

func (o *coreOracle) checkBRStatusWrite(s *Sim, w *Write) {
	ob, nb := w.Old.(*v1beta1.BatchRelease), w.New.(*v1beta1.BatchRelease)
	if reflect.DeepEqual(ob.Status, nb.Status) {
		return
	}
	fam := o.sc.Family
	rd := asReadBR(s.cur, w.Key)
	if rd == nil {
		return
	}
	s.probe("c11.status-writes")
	plan := rd.Spec.ReleasePlan
	// B2: never beyond batchPartition (as read)
	if plan.BatchPartition != nil && nb.Status.Phase == v1beta1.RolloutPhaseProgressing && nb.Status.CanaryStatus.CurrentBatch > *plan.BatchPartition &&
		nb.Status.CanaryStatus.CurrentBatch > rd.Status.CanaryStatus.CurrentBatch {
		s.Violate("C11", "B2-partition", "B2/"+fam, w.Seq, "BatchRelease moved to batch %d beyond batchPartition %d", nb.Status.CanaryStatus.CurrentBatch, *plan.BatchPartition)
	}
	if s.cur != nil {
		if s.cur.Flags == nil {
			s.cur.Flags = map[string]bool{}
		}
		s.cur.Flags["br-status-write"] = true
	}
	// B1: a batch is reported Ready only when the workload (as this reconcile saw it) is ready
	// judged against the status this reconcile had read (a status written from a stale read is a lost update, not a decision)
	entering := rd.Status.CanaryStatus.CurrentBatchState != v1beta1.ReadyBatchState || rd.Status.CanaryStatus.CurrentBatch != nb.Status.CanaryStatus.CurrentBatch
	if rd.Status.ObservedReleasePlanHash != "" && rd.Status.ObservedReleasePlanHash != nb.Status.ObservedReleasePlanHash {
		entering = true // the status claims Ready for a plan it has just observed: the plan changed, so it must hold for the new plan
	}
	if nb.Status.Phase == v1beta1.RolloutPhaseProgressing && nb.Status.CanaryStatus.CurrentBatchState == v1beta1.ReadyBatchState && entering {
		if msg := o.batchNotReady(s, rd, int(nb.Status.CanaryStatus.CurrentBatch)); msg != "" {
			s.Violate("C11", "B1-ready", "B1/"+fam, w.Seq, "batch %d reported Ready but %s", nb.Status.CanaryStatus.CurrentBatch, msg)
		}
	}
	// B3: Completed means released
	if nb.Status.Phase == v1beta1.RolloutPhaseCompleted && ob.Status.Phase != v1beta1.RolloutPhaseCompleted {
		s.probe("c11.completed-writes")
		ref := rd.Spec.WorkloadRef
		gk := gkDeployment
		if ref.Kind == "CloneSet" {
			gk = gkCloneSet
		}
		// authoritative: the releasing write must have been committed before Completed is reported
		wl := s.Store.Peek(ObjKey{GK: gk, NS: rd.Namespace, Name: ref.Name})
		if wl != nil && wl.GetDeletionTimestamp() == nil {
			if controlledByUID(wl) == string(rd.UID) {
				// did the finalising reconcile see the claim at all?  (The claim is this controller's own earlier write; with
				// the informer behind, Finalize reads a workload that is "not controlled" and returns at once.)
				tag := ""
				if t := s.cur; t != nil {
					if rr, ok := t.LastRead[ObjKey{GK: gk, NS: rd.Namespace, Name: ref.Name}]; ok && rr.Found && controlledByUID(rr.Obj.(client.Object)) != string(rd.UID) {
						tag = "/claim-not-seen"
						if s.Flags == nil {
							s.Flags = map[string]bool{}
						}
						s.Flags["br-completed-claim-not-seen/"+string(rd.UID)] = true
					}
				}
				s.Violate("C11", "B3-completed", "B3/control/"+fam+tag, w.Seq, "BatchRelease reported Completed while %s %s still carries its control annotation", ref.Kind, ref.Name)
			}
			// where the policy is to wait (canary-style Deployment, waitResume): every pod is updated, on every attempt.
			// Authoritative store: nothing the controller can have read is fresher, and updated pods do not turn back.
			canaryWait := rd.Spec.ReleasePlan.FinalizingPolicy == v1beta1.WaitResumeFinalizingPolicyType && (rd.Spec.ReleasePlan.RollingStyle == v1beta1.CanaryRollingStyle || rd.Spec.ReleasePlan.EnableExtraWorkloadForCanary)
			// blue-green finalisation of a Deployment always waits for all pods ("wait all pods updated and ready")
			bgWait := rd.Spec.ReleasePlan.RollingStyle == v1beta1.BlueGreenRollingStyle
			if d, ok := wl.(*appsv1.Deployment); ok && (canaryWait || bgWait) && rd.Spec.ReleasePlan.BatchPartition == nil {
				s.probe("c11.completed-waitresume")
				// pods of old ReplicaSets still around = not every pod is updated (authoritative, independent of status lag)
				oldPods, allPods := 0, 0
				for _, k := range s.Store.Keys(gkRS) {
					rs := s.Store.Peek(k).(*appsv1.ReplicaSet)
					if r := metav1.GetControllerOf(rs); r == nil || r.UID != d.UID || rs.DeletionTimestamp != nil {
						continue
					}
					allPods += int(rs.Status.Replicas)
					if !rutil.EqualIgnoreHash(&rs.Spec.Template, &d.Spec.Template) {
						oldPods += int(rs.Status.Replicas)
					}
				}
				if oldPods > 0 && !strings.Contains(s.firedEvents(), "scale") {
					s.Violate("C11", "B3-completed", "B3/wait/"+fam, w.Seq, "BatchRelease (waiting policy) reported Completed while Deployment %s still runs %d of %d pods on old ReplicaSets", ref.Name, oldPods, allPods)
				}
			}
		}
	}
}

// batchNotReady evaluates the documented readiness criterion of batch b on the workload version the
// current reconcile has read; "" means ready or not decidable.
func (o *coreOracle) batchNotReady(s *Sim, rd *v1beta1.BatchRelease, b int) string {
	plan := rd.Spec.ReleasePlan
	stable, canary := o.workloadAsRead(s, rd)
	if stable == nil || b >= len(plan.Batches) || b < 0 || wl2gen(stable) {
		return ""
	}
	var n, updated, ready int
	style := plan.RollingStyle
	switch wl := stable.(type) {
	case *kruisev1alpha1.CloneSet:
		n, updated, ready = int(*wl.Spec.Replicas), int(wl.Status.UpdatedReplicas), int(wl.Status.UpdatedReadyReplicas)
	case *appsv1.Deployment:
		n = int(*wl.Spec.Replicas)
		if style == v1beta1.CanaryRollingStyle || plan.EnableExtraWorkloadForCanary {
			if canary == nil || wl2gen(canary) || o.liveCanaries(s) > 1 {
				return "" // with duplicated canary Deployments (C06 A1) it is undefined which one the controller looks at
			}
			updated, ready = int(canary.Status.Replicas), int(canary.Status.AvailableReplicas)
		} else if style == v1beta1.BlueGreenRollingStyle {
			// blue-green: updated pods are those of the new ReplicaSet; ready ones are its ready replicas, as this reconcile listed them
			updated = int(wl.Status.UpdatedReplicas)
			ready = -1
			if t := s.cur; t != nil {
				for k, rr := range t.LastRead {
					if k.GK != gkRS || !rr.Found {
						continue
					}
					rs := rr.Obj.(*appsv1.ReplicaSet)
					if ref := metav1.GetControllerOf(rs); ref != nil && ref.UID == wl.UID && rs.DeletionTimestamp == nil && rutil.EqualIgnoreHash(&rs.Spec.Template, &wl.Spec.Template) {
						ready = int(rs.Status.ReadyReplicas)
					}
				}
			}
			if ready < 0 {
				return ""
			}
		} else {
			updated = int(wl.Status.UpdatedReplicas)
			es := v1alpha1.DeploymentExtraStatus{}
			_ = json.Unmarshal([]byte(wl.Annotations[v1alpha1.DeploymentExtraStatusAnnotation]), &es)
			ready = int(es.UpdatedReadyReplicas)
		}
	default:
		return ""
	}
	if n == 0 {
		return ""
	}
	s.probe("c11.ready-evaluations")
	want := planned(plan.Batches[b].CanaryReplicas, n)
	if _, isDep := stable.(*appsv1.Deployment); isDep && style != v1beta1.CanaryRollingStyle && !plan.EnableExtraWorkloadForCanary {
		// documented meaning of a percentage partition on a Deployment: below 100% it never demands the last pod
		if plan.Batches[b].CanaryReplicas.Type == intstr.String && plan.Batches[b].CanaryReplicas.StrVal != "100%" && n > 1 && want > n-1 {
			want = n - 1
		}
	}
	if nn := rd.Status.CanaryStatus.NoNeedUpdateReplicas; nn != nil && *nn > 0 {
		want = int(*nn) + planned(plan.Batches[b].CanaryReplicas, n-int(*nn))
	}
	want -= slack(n)
	tol := 0
	if plan.FailureThreshold != nil {
		tol = plannedFloorUp(*plan.FailureThreshold, updated)
	}
	switch {
	case updated < want:
		return fmt.Sprintf("only %d updated pods, plan calls for %d of %d", updated, want, n)
	case ready+tol < want:
		return fmt.Sprintf("only %d ready updated pods (+%d tolerated), plan calls for %d of %d", ready, tol, want, n)
	case want > 0 && ready == 0:
		return fmt.Sprintf("no ready updated pod (plan calls for %d)", want)
	}
	return ""
}

// B4: a reconcile that had nothing else to persist, read a workload (same revision, settled status) that
// fails the readiness criterion and still left the batch Ready.
func (o *coreOracle) OnReconcileEnd(s *Sim, info *RecInfo) {
	if true {
		return // B4 withdrawn: whether a write-less reconcile "evaluated" readiness cannot be observed from outside (see DESIGN, false alarms corrected)
	}
	if info.Ctrl != "batchrelease" || info.Err != nil || info.Task == nil || info.Task.Flags["br-status-write"] {
		return
	}
	if s.firedEvents() != "" {
		return // judged only in undisturbed releases (degradation by pod faults): user disturbances have their own oracles
	}
	k := ObjKey{GK: gkBR, NS: info.Req.Namespace, Name: info.Req.Name}
	rd := asReadBR(info.Task, k)
	if rd == nil || rd.DeletionTimestamp != nil || rd.Spec.ReleasePlan.BatchPartition == nil || rd.Status.Phase != v1beta1.RolloutPhaseProgressing ||
		rd.Status.CanaryStatus.CurrentBatchState != v1beta1.ReadyBatchState || rd.Status.ObservedGeneration != rd.Generation {
		return
	}
	prev := s.cur
	s.cur = info.Task
	defer func() { s.cur = prev }()
	stable, _ := o.workloadAsRead(s, rd)
	if stable == nil {
		return
	}
	rev := ""
	switch wl := stable.(type) {
	case *kruisev1alpha1.CloneSet:
		rev = wl.Status.UpdateRevision
		if int32(*wl.Spec.Replicas) != rd.Status.ObservedWorkloadReplicas {
			return
		}
	case *appsv1.Deployment:
		rev = rutil.ComputeHash(&wl.Spec.Template, nil)
		if int32(*wl.Spec.Replicas) != rd.Status.ObservedWorkloadReplicas {
			return
		}
	}
	if rev != rd.Status.UpdateRevision {
		return
	}
	s.probe("c11.b4-evaluations")
	if msg := o.batchNotReady(s, rd, int(rd.Status.CanaryStatus.CurrentBatch)); msg != "" {
		s.Violate("C11", "B4-fallback", "B4/"+o.sc.Family, s.Store.seq, "BatchRelease reconcile left batch %d Ready although the workload it read has %s", rd.Status.CanaryStatus.CurrentBatch, msg)
	}
}

func (o *coreOracle) liveCanaries(s *Sim) int {
	n := 0
	for _, k := range s.Store.Keys(gkDeployment) {
		d := s.Store.Peek(k).(*appsv1.Deployment)
		if d.Labels[canaryDepLabel] == o.sc.Name && d.Namespace == o.sc.NS && d.DeletionTimestamp == nil {
			n++
		}
	}
	return n
}

// wl2gen: the workload's own controller has not caught up with its spec yet (status not trustworthy)
func wl2gen(o client.Object) bool {
	switch wl := o.(type) {
	case *kruisev1alpha1.CloneSet:
		return wl.Status.ObservedGeneration < wl.Generation
	case *appsv1.Deployment:
		return wl.Status.ObservedGeneration < wl.Generation
	}
	return false
}

// failure threshold: percentage of the updated pods, rounded up (documented on the field)
func plannedFloorUp(v intstr.IntOrString, total int) int {
	if v.Type == intstr.String {
		p := 0
		fmt.Sscanf(v.StrVal, "%d%%", &p)
		return int(math.Ceil(float64(p) * float64(total) / 100.0))
	}
	return int(v.IntVal)
}

// ---- C07 -------------------------------------------------------------------

func (o *coreOracle) OnEnd(s *Sim) {
	sc := o.sc
	if o.sc.user == nil || !o.sc.user.Released {
		return
	}
	if s.Cfg.anyFault() && s.Cfg.FaultsStopAt == 0 {
		return // liveness is only claimed once faults stop
	}
	ro := o.sc.user.getRollout()
	if ro == nil {
		s.probe("c07.terminal-gone")
		return
	}
	reason := progressingReason(ro)
	switch ro.Status.Phase {
	case v1beta1.RolloutPhaseHealthy, v1beta1.RolloutPhaseDisabled, v1beta1.RolloutPhaseInitial:
		if ro.DeletionTimestamp == nil && ro.Spec.Disabled == (ro.Status.Phase == v1beta1.RolloutPhaseDisabled) {
			s.probe("c07.terminal")
			return
		}
	}
	// legitimately waiting for the user or for pods that cannot become ready
	waiting := ""
	sub := ro.Status.GetSubStatus()
	switch {
	case sc.V2Fails && o.sc.user.Version != 1:
		waiting = "new revision never becomes ready"
	case ro.Spec.Strategy.Paused && ro.DeletionTimestamp == nil && !ro.Spec.Disabled:
		waiting = "rollout paused by the user"
	case ro.Status.Phase == v1beta1.RolloutPhaseProgressing && reason == v1alpha1.ProgressingReasonInRolling && sub != nil &&
		sub.CurrentStepState == v1beta1.CanaryStepStatePaused && !sc.AutoApprove:
		waiting = "manual approval"
	}
	if strings.HasSuffix(sc.Family, "bluegreen") && strings.Contains(s.firedEvents(), "release-v3") && ro.Status.Phase == v1beta1.RolloutPhaseProgressing {
		// documented: a blue-green release refuses a newer revision and waits for the user to roll back first
		waiting = "blue-green release refuses supersession; waiting for the user's rollback"
	}
	for i := range sc.Events {
		if !sc.Events[i].Done && sc.Events[i].After != "" && o.sc.user.doneKinds[sc.Events[i].After] {
			waiting = "user follow-up pending"
		}
	}
	if waiting != "" {
		s.probe("c07.waiting-for-user")
		return
	}
	early := ""
	switch s.EndReason {
	case "quiescent":
		s.Violate("C07", "L1-lost-wakeup", "L1/"+sc.Family+"/"+string(ro.Status.Phase)+"/"+reason+"/"+string(ro.Status.CurrentStepState)+early, s.Store.seq, "simulator is quiescent (no queued key, no armed timer, no undelivered event) but the rollout is not finished: %s", s.abstractState())
	default:
		s.Violate("C07", "L2-budget", "L2/"+sc.Family+"/"+string(ro.Status.Phase)+"/"+reason+"/"+string(ro.Status.CurrentStepState)+early, s.Store.seq, "rollout did not finish within the budget (%s after %d steps, %.0fs simulated): %s", s.EndReason, s.Steps, s.Elapsed().Seconds(), s.abstractState())
	}
}
