package ksim

import (
	"encoding/json"
	"fmt"
	"os"
	"strconv"
	"testing"
	"time"
)

type ReplayFile struct {
	Property  string            `json:"property"`
	Check     string            `json:"check"`
	Signature string            `json:"signature"`
	Oracle    string            `json:"oracle"`
	Seed      int64             `json:"seed"`
	Tier      string            `json:"tier"`
	Choices   []uint32          `json:"choices"`
	Scenario  *Scenario         `json:"scenario,omitempty"`
	Violation *Violation        `json:"violation,omitempty"`
	Minimised bool              `json:"minimised"`
	Trace     []string          `json:"abstract_trace,omitempty"`
	Log       []string          `json:"event_log,omitempty"`
	Runs      int               `json:"shrink_runs,omitempty"`
	Forced    map[string]string `json:"forced,omitempty"`
	Enum      bool              `json:"enum,omitempty"`
}

func hasSig(res *RunResult, prop, sig string) *Violation {
	for i := range res.Violations {
		if res.Violations[i].Property == prop && res.Violations[i].Sig == sig {
			return &res.Violations[i]
		}
	}
	return nil
}

// TestReplay re-executes a replay file (KSIM_REPLAY).  With KSIM_SHRINK_OUT it first minimises the
// choice sequence (truncate, then zero blocks: zero is always the benign choice) while the same
// oracle signature keeps failing, and writes the minimised file.
func TestReplay(t *testing.T) {
	path := os.Getenv("KSIM_REPLAY")
	if path == "" {
		t.Skip("KSIM_REPLAY not set")
	}
	data, err := os.ReadFile(path)
	if err != nil {
		t.Fatal(err)
	}
	rf := &ReplayFile{}
	if err := json.Unmarshal(data, rf); err != nil {
		t.Fatal(err)
	}
	os.Setenv("KSIM_TIER", rf.Tier)
	var forced map[int]string
	if len(rf.Forced) > 0 {
		forced = map[int]string{}
		for k, v := range rf.Forced {
			n, _ := strconv.Atoi(k)
			forced[n] = v
		}
	}
	var mut func(sc *Scenario, cfg *Config)
	if rf.Enum {
		mut = enumQuiet(rf.Check)
	}
	var baseDigest string
	if rf.Enum && forced != nil && rf.Check == "C06" {
		baseDigest = RunOne(t, ReplayTape(rf.Choices), rf.Seed, RunOpts{Property: rf.Check, Mutate: mut}).Digest
	}
	run := func(ch []uint32, keep bool) *RunResult {
		res := RunOne(t, ReplayTape(ch), rf.Seed, RunOpts{Property: rf.Check, KeepLog: keep, Mutate: mut, Forced: forced})
		if rf.Check == "C19" {
			isolationCheck(t, res, rf.Seed)
		}
		if baseDigest != "" && res.Digest != baseDigest && res.EndReason == "quiescent" {
			for j, kind := range forced {
				res.Violations = append(res.Violations, Violation{Property: "C06", Oracle: "D1-final-state", Sig: "D1/" + res.Scenario.Family + "/" + kind + "|ev=", Seq: uint64(j),
					Detail: "terminal cluster state differs from the undisturbed run: " + res.Digest + " vs " + baseDigest})
			}
		}
		return res
	}
	res := run(rf.Choices, os.Getenv("KSIM_REPLAY_LOG") != "")
	if os.Getenv("KSIM_REPLAY_LOG") != "" {
		for _, l := range res.LogLines {
			fmt.Println(l)
		}
	}
	v := hasSig(res, rf.Property, rf.Signature)
	if v == nil {
		fmt.Printf("NOT-REPRODUCED signature=%s (violations now: %d)\n", rf.Signature, len(res.Violations))
		return
	}
	best := append([]uint32(nil), rf.Choices...)
	runs := 1
	if out := os.Getenv("KSIM_SHRINK_OUT"); out != "" && !rf.Minimised && !rf.Enum {
		budget, _ := strconv.ParseFloat(os.Getenv("KSIM_SHRINK_S"), 64)
		if budget <= 0 {
			budget = 60
		}
		start := time.Now()
		fails := func(ch []uint32) bool {
			runs++
			return hasSig(run(ch, false), rf.Property, rf.Signature) != nil
		}
		over := func() bool { return time.Since(start).Seconds() > budget }
		// 1. truncate (exhausted tape = all benign choices)
		lo, hi := 0, len(best)
		for lo < hi && !over() {
			mid := (lo + hi) / 2
			if fails(best[:mid]) {
				hi = mid
			} else {
				lo = mid + 1
			}
		}
		if hi < len(best) && fails(best[:hi]) {
			best = best[:hi]
		}
		// 2. zero blocks
		for size := len(best) / 2; size >= 1 && !over(); size /= 2 {
			for off := 0; off < len(best) && !over(); off += size {
				end := off + size
				if end > len(best) {
					end = len(best)
				}
				allZero := true
				for _, x := range best[off:end] {
					if x != 0 {
						allZero = false
					}
				}
				if allZero {
					continue
				}
				cand := append([]uint32(nil), best...)
				for i := off; i < end; i++ {
					cand[i] = 0
				}
				if fails(cand) {
					best = cand
				}
			}
		}
		// drop trailing zeros
		for len(best) > 0 && best[len(best)-1] == 0 {
			best = best[:len(best)-1]
		}
		fin := run(best, true)
		fv := hasSig(fin, rf.Property, rf.Signature)
		if fv != nil {
			mf := &ReplayFile{Property: rf.Property, Check: rf.Check, Signature: rf.Signature, Oracle: rf.Oracle, Seed: rf.Seed, Tier: rf.Tier,
				Choices: best, Scenario: fin.Scenario, Violation: fv, Minimised: true, Trace: fin.Trace, Log: tail(fin.LogLines, 400), Runs: runs}
			b, _ := json.MarshalIndent(mf, "", " ")
			_ = os.WriteFile(out, b, 0o644)
			v = fv
		}
	}
	fmt.Printf("REPRODUCED signature=%s seq=%d choices=%d->%d runs=%d detail=%s\n", rf.Signature, v.Seq, len(rf.Choices), len(best), runs, firstLine(v.Detail))
}

func tail(l []string, n int) []string {
	if len(l) > n {
		return l[len(l)-n:]
	}
	return l
}
