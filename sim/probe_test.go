//go:debug randseednop=0

package ksim

import (
	"flag"
	"fmt"
	"io"
	"os"
	"strconv"
	"testing"

	"k8s.io/klog/v2"
)

func TestMain(m *testing.M) {
	fs := flag.NewFlagSet("klog", flag.ContinueOnError)
	klog.InitFlags(fs)
	_ = fs.Set("logtostderr", "false")
	_ = fs.Set("alsologtostderr", "false")
	_ = fs.Set("stderrthreshold", "FATAL")
	klog.SetOutput(io.Discard)
	if os.Getenv("KSIM_KLOG") != "" {
		_ = fs.Set("logtostderr", "true")
		_ = fs.Set("stderrthreshold", "INFO")
		_ = fs.Set("v", os.Getenv("KSIM_KLOG"))
	}
	os.Exit(m.Run())
}

func TestSmoke(t *testing.T) {
	seed := int64(1)
	if v := os.Getenv("VERIF_SEED"); v != "" {
		seed, _ = strconv.ParseInt(v, 10, 64)
	}
	n := 1
	if v := os.Getenv("N"); v != "" {
		n, _ = strconv.Atoi(v)
	}
	for i := 0; i < n; i++ {
		res := RunOne(t, NewTape(seed+int64(i)), seed+int64(i), RunOpts{KeepLog: os.Getenv("KEEP") != "", Property: os.Getenv("KSIM_PROPERTY")})
		fmt.Printf("seed=%d fam=%s n=%d steps=%v end=%s steps=%d sim=%.0fs writes=%d final=%s\n", res.Seed, res.Scenario.Family, res.Scenario.Replicas, res.Scenario.Steps, res.EndReason, res.Steps, res.SimSeconds, res.Writes, res.Final)
		if os.Getenv("KEEP") != "" {
			for _, l := range res.Trace {
				fmt.Println("  T", l)
			}
			for _, l := range res.LogLines {
				fmt.Println("  L", l)
			}
		}
		for _, v := range res.Violations {
			fmt.Printf("  VIOLATION %+v\n", v)
		}
	}
}
