package ksim

import (
	"container/heap"
	"fmt"
	"k8s.io/apimachinery/pkg/api/meta"
	"runtime/debug"
	"sigs.k8s.io/controller-runtime/pkg/client"
	"sort"
	"strings"
	"time"
)

// ---------------------------------------------------------------------------
// configuration of one run

type Config struct {
	// scheduling
	Interleave     bool // API-call granularity pre-emption of controller tasks
	PreemptPermyr  int  // chance of pre-empting at a write call when Interleave
	CacheLagMaxMs  int  // 0 = synchronous informer delivery (fresh cache)
	EnvDelayMaxMs  int  // reaction delay of workload-controller models
	GCLagMaxMs     int  // lag of the garbage collector
	ReadyDelayMaxS int  // pod readiness delay (seconds)
	ShuffleLists   bool // permute List results of caches
	// faults (permyriad per eligible call unless stated)
	ErrBefore    int
	ErrAfter     int
	Conflict     int
	CrashAtCall  int // crash before/after a write call
	EventDup     int // per delivered event
	ClockJump    int // per scheduler step
	PodFlap      int // per scheduler step
	PodKill      int // per scheduler step
	FaultsStopAt int // scheduler step after which no random fault fires (0 = never stop)
	// systematic placement: eligible call index -> fault kind
	Forced map[int]string
	// budgets
	MaxSteps   int
	MaxSimTime time.Duration
}

func (c Config) anyFault() bool {
	return c.ErrBefore+c.ErrAfter+c.Conflict+c.CrashAtCall+c.EventDup+c.ClockJump+c.PodFlap+c.PodKill > 0 || len(c.Forced) > 0
}

// ---------------------------------------------------------------------------
// tasks

type poisonT struct{}

var poison = poisonT{}

type Task struct {
	ID       uint64
	Name     string
	Actor    string
	RecID    uint64
	Proc     *Process
	resume   chan bool
	yield    chan struct{}
	done     bool
	parked   bool
	poisoned bool
	panicVal interface{}
	panicStk string
	// reads served to this task (first version seen per key, latest version seen per key)
	FirstRead map[ObjKey]readRec
	LastRead  map[ObjKey]readRec
	onDone    func(t *Task)
	Flags     map[string]bool
	Notes     map[ObjKey]string // per-reconcile scratch for oracles (e.g. batch-id written to a pod)
}

type readRec struct {
	Obj   interface{} // client.Object snapshot or nil for not found
	Found bool
}

type timer struct {
	at  time.Time
	seq uint64
	fn  func()
}
type timerHeap []timer

func (h timerHeap) Len() int { return len(h) }
func (h timerHeap) Less(i, j int) bool {
	if !h[i].at.Equal(h[j].at) {
		return h[i].at.Before(h[j].at)
	}
	return h[i].seq < h[j].seq
}
func (h timerHeap) Swap(i, j int)       { h[i], h[j] = h[j], h[i] }
func (h *timerHeap) Push(x interface{}) { *h = append(*h, x.(timer)) }
func (h *timerHeap) Pop() interface{} {
	o := *h
	x := o[len(o)-1]
	*h = o[:len(o)-1]
	return x
}

type option struct {
	label string
	run   func()
}

// Actor is anything that offers scheduler steps (models, user, gc).
type Actor interface {
	Options(s *Sim) []option
}

type Violation struct {
	Property string `json:"property"`
	Oracle   string `json:"oracle"`
	Sig      string `json:"signature"`
	Seq      uint64 `json:"seq"`
	Step     int    `json:"step"`
	Detail   string `json:"detail"`
}

type Sim struct {
	Flags      map[string]bool // facts one oracle leaves for another
	HarnessErr string          // first fault of the harness itself (oracle panic); reported as trouble, never as a violation
	T          *Tape
	Cfg        Config
	Store      *Store
	Proc       *Process
	Env        *Env
	User       *User // first user (single-rollout runs)
	Users      []*User

	start    time.Time
	mapper   meta.RESTMapper
	Steps    int
	tasks    []*Task
	cur      *Task
	timers   timerHeap
	timerSeq uint64
	taskSeq  uint64
	recSeq   uint64
	actors   []Actor

	callIdx     int // index of fault-eligible calls so far
	pendingReap bool
	faultsOff   bool
	lastFaultAt int // step of last fired fault / user action

	Stats         map[string]int
	Probes        map[string]int
	Violations    []Violation
	Trace         []string // abstract trace for evidence / determinism hash
	EvLog         *hashLog // full event log hash (determinism self-test)
	Oracles       []Oracle
	admissionHook func(actor string, old, submitted, admitted client.Object)
	QuietHooks    []func() bool // called at quiescence; return true if they produced work
	ended         bool
	EndReason     string
}

func (s *Sim) Now() time.Time { return time.Now() }

func (s *Sim) Elapsed() time.Duration { return time.Since(s.start) }

func (s *Sim) After(d time.Duration, fn func()) {
	s.timerSeq++
	heap.Push(&s.timers, timer{at: time.Now().Add(d), seq: s.timerSeq, fn: fn})
}

func (s *Sim) firedEvents() string {
	if len(s.Users) == 0 {
		return ""
	}
	set := map[string]bool{}
	for _, u := range s.Users {
		for _, e := range u.sc.Events {
			if e.Done {
				set[e.Kind] = true
			}
		}
	}
	ks := make([]string, 0, len(set))
	for k := range set {
		ks = append(ks, k)
	}
	sort.Strings(ks)
	return strings.Join(ks, "+")
}

func (s *Sim) stat(k string)  { s.Stats[k]++ }
func (s *Sim) probe(k string) { s.Probes[k]++ }

func (s *Sim) Violate(prop, oracle, sig string, seq uint64, format string, a ...interface{}) {
	if len(s.Violations) >= 50 {
		return
	}
	// the signature carries the set of user disturbances fired so far: a finding recorded for a
	// disturbed history never masks a violation in an undisturbed one
	sig += "|ev=" + s.firedEvents()
	for _, v := range s.Violations {
		if v.Property == prop && v.Sig == sig {
			return // one report per signature and run
		}
	}
	s.Violations = append(s.Violations, Violation{Property: prop, Oracle: oracle, Sig: sig, Seq: seq, Step: s.Steps, Detail: fmt.Sprintf(format, a...)})
}

// Spawn creates a task; it does not run until the scheduler resumes it.
func (s *Sim) Spawn(name, actor string, proc *Process, recID uint64, fn func()) *Task {
	s.taskSeq++
	t := &Task{ID: s.taskSeq, Name: name, Actor: actor, Proc: proc, RecID: recID,
		resume: make(chan bool), yield: make(chan struct{}),
		FirstRead: map[ObjKey]readRec{}, LastRead: map[ObjKey]readRec{}}
	s.tasks = append(s.tasks, t)
	t.parked = true
	go func() {
		ok := <-t.resume
		if ok {
			func() {
				defer func() {
					if r := recover(); r != nil {
						if _, isPoison := r.(poisonT); !isPoison {
							t.panicVal = r
							t.panicStk = string(debug.Stack())
						}
					}
				}()
				fn()
			}()
		}
		t.done = true
		t.yield <- struct{}{}
	}()
	return t
}

// step resumes a task until it parks again or finishes.
func (s *Sim) stepTask(t *Task) {
	prev := s.cur
	s.cur = t
	t.parked = false
	t.resume <- !t.poisoned
	<-t.yield
	s.cur = prev
	if t.done {
		s.removeTask(t)
		if t.onDone != nil {
			t.onDone(t)
		}
	}
}

func (s *Sim) removeTask(t *Task) {
	for i, x := range s.tasks {
		if x == t {
			s.tasks = append(s.tasks[:i], s.tasks[i+1:]...)
			return
		}
	}
}

// park is called from inside a task at a pre-emption point.
func (s *Sim) park() {
	t := s.cur
	if t == nil {
		return
	}
	t.parked = true
	t.yield <- struct{}{}
	ok := <-t.resume
	if !ok || t.poisoned {
		panic(poison)
	}
}

func (s *Sim) fireTimers() {
	now := time.Now()
	for s.timers.Len() > 0 && !s.timers[0].at.After(now) {
		tm := heap.Pop(&s.timers).(timer)
		tm.fn()
	}
}

func (s *Sim) reap() {
	s.pendingReap = false
	for _, t := range append([]*Task(nil), s.tasks...) {
		if t.poisoned && t.parked && !t.done {
			s.stepTask(t)
		}
	}
}

func (s *Sim) collect() []option {
	var opts []option
	// parked tasks first
	for _, t := range s.tasks {
		if t.parked && !t.done {
			tt := t
			opts = append(opts, option{"resume:" + t.Name, func() { s.stepTask(tt) }})
		}
	}
	if s.Proc != nil {
		opts = append(opts, s.Proc.Options(s)...)
	}
	for _, a := range s.actors {
		opts = append(opts, a.Options(s)...)
	}
	return opts
}

func (s *Sim) faultsActive() bool {
	if s.faultsOff {
		return false
	}
	if s.Cfg.FaultsStopAt > 0 && s.Steps >= s.Cfg.FaultsStopAt {
		return false
	}
	return true
}

// Run is the scheduler loop.
func (s *Sim) Run() {
	deadline := s.start.Add(s.Cfg.MaxSimTime)
	for {
		if s.Steps >= s.Cfg.MaxSteps {
			s.EndReason = "max-steps"
			break
		}
		if time.Now().After(deadline) {
			s.EndReason = "max-simtime"
			break
		}
		// never let anything run at an instant that is exactly a whole second (see run.go: such an instant equals the
		// timestamps the API server truncates to seconds, which no real clock does); timers set for absolute, truncated
		// deadlines can still lead there
		if time.Now().Nanosecond() == 0 {
			time.Sleep(137 * time.Microsecond)
		}
		s.fireTimers()
		if s.pendingReap {
			s.reap()
		}
		s.globalFaults()
		opts := s.collect()
		if len(opts) == 0 {
			if s.timers.Len() > 0 {
				d := time.Until(s.timers[0].at)
				if s.timers[0].at.After(deadline) {
					s.EndReason = "idle-until-deadline"
					break
				}
				if d > 0 {
					time.Sleep(d)
				}
				continue
			}
			// quiescent
			progressed := false
			for _, h := range s.QuietHooks {
				if h() {
					progressed = true
					break
				}
			}
			if progressed {
				continue
			}
			s.EndReason = "quiescent"
			break
		}
		i := s.T.Next(len(opts))
		if s.EvLog != nil {
			s.EvLog.add("S|" + opts[i].label)
		}
		opts[i].run()
		s.Steps++
	}
	s.ended = true
	// shut down: poison everything that is still parked so the bubble can exit
	for _, t := range append([]*Task(nil), s.tasks...) {
		t.poisoned = true
	}
	for len(s.tasks) > 0 {
		s.stepTask(s.tasks[0])
	}
}

func (s *Sim) globalFaults() {
	if !s.faultsActive() {
		return
	}
	if s.Cfg.ClockJump > 0 && s.T.Chance(s.Cfg.ClockJump) {
		d := time.Duration(1+s.T.Next(600)) * time.Second
		s.stat("fault.clock-jump")
		s.lastFaultAt = s.Steps
		time.Sleep(d)
		s.fireTimers()
	}
	if s.Env != nil {
		s.Env.randomFaults(s)
	}
}

func sortedKeys[M ~map[string]V, V any](m M) []string {
	ks := make([]string, 0, len(m))
	for k := range m {
		ks = append(ks, k)
	}
	sort.Strings(ks)
	return ks
}
