package ksim

import (
	"crypto/sha256"
	"encoding/hex"
	"hash"
	"sort"
)

type Oracle interface {
	Name() string
	OnWrite(s *Sim, w *Write)
	OnReconcileEnd(s *Sim, info *RecInfo)
	OnEnd(s *Sim)
}

type baseOracle struct{}

func (baseOracle) OnWrite(*Sim, *Write)          {}
func (baseOracle) OnReconcileEnd(*Sim, *RecInfo) {}
func (baseOracle) OnEnd(*Sim)                    {}

// hashLog is the determinism log: every scheduler decision, fault and committed write is folded
// into a running hash; optionally the lines are kept.
type hashLog struct {
	h     hash.Hash
	n     int
	keep  bool
	Lines []string
	comm  []string // pending commutative lines (order-insensitive group)
}

func newHashLog(keep bool) *hashLog { return &hashLog{h: sha256.New(), keep: keep} }

// addCommutative records a line whose order relative to its neighbours of the same kind is not
// defined (Pod label patches issued while ranging over a Go map); the group is sorted when flushed.
func (l *hashLog) addCommutative(line string) { l.comm = append(l.comm, line) }

func (l *hashLog) flush() {
	if len(l.comm) == 0 {
		return
	}
	c := l.comm
	l.comm = nil
	sort.Strings(c)
	for _, x := range c {
		l.add(x)
	}
}

func (l *hashLog) add(line string) {
	if len(l.comm) > 0 {
		l.flush()
	}
	l.h.Write([]byte(line))
	l.h.Write([]byte{'\n'})
	l.n++
	if l.keep {
		l.Lines = append(l.Lines, line)
	}
}

func (l *hashLog) Sum() string { l.flush(); return hex.EncodeToString(l.h.Sum(nil))[:16] }
