package ksim

import "math/rand"

// Tape is the single source of every random decision in a run.
//
// In explore mode values come from a PRNG seeded with VERIF_SEED; every value
// handed out (after reduction mod n) is recorded.  In replay mode values come
// from the recorded list; once it is exhausted every further choice is 0,
// which by convention is the benign choice (no fault, no pre-emption, smallest
// size, zero lag).  Shrinking therefore works by zeroing or truncating entries.
type Tape struct {
	rng    *rand.Rand
	forced []uint32
	replay bool
	Rec    []uint32
}

func NewTape(seed int64) *Tape {
	return &Tape{rng: rand.New(rand.NewSource(seed))}
}

func ReplayTape(choices []uint32) *Tape {
	return &Tape{forced: choices, replay: true}
}

// Next returns a value in [0,n).  n<=1 consumes nothing.
func (t *Tape) Next(n int) int {
	if n <= 1 {
		return 0
	}
	var v uint32
	if t.replay {
		if len(t.Rec) < len(t.forced) {
			v = t.forced[len(t.Rec)] % uint32(n)
		}
	} else {
		v = uint32(t.rng.Intn(n))
	}
	t.Rec = append(t.Rec, v)
	return int(v)
}

// Chance returns true with probability permyriad/10000; false is the benign value.
func (t *Tape) Chance(permyriad int) bool {
	if permyriad <= 0 {
		return false
	}
	// value 0 must be "false": draw in [0,10000) and fire on the top of the range.
	return t.Next(10000) >= 10000-permyriad
}

// Pick returns an index weighted by w (w[0] should be the benign option).
func (t *Tape) Pick(w ...int) int {
	sum := 0
	for _, x := range w {
		sum += x
	}
	if sum <= 0 {
		return 0
	}
	v := t.Next(sum)
	for i, x := range w {
		if v < x {
			return i
		}
		v -= x
	}
	return len(w) - 1
}

func (t *Tape) Pos() int { return len(t.Rec) }
