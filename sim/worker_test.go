package ksim

import (
	"bufio"
	"encoding/json"
	"os"
	"strconv"
	"testing"
	"time"
)

// TestWorker is the entry point used by the check driver: it runs seeds
// KSIM_SEED0, KSIM_SEED0+KSIM_STRIDE, ... until KSIM_COUNT runs or KSIM_BUDGET_S seconds are used,
// and streams one JSON line per run to KSIM_OUT.
func TestWorker(t *testing.T) {
	out := os.Getenv("KSIM_OUT")
	if out == "" {
		t.Skip("KSIM_OUT not set")
	}
	seed0, _ := strconv.ParseInt(os.Getenv("KSIM_SEED0"), 10, 64)
	stride, _ := strconv.ParseInt(os.Getenv("KSIM_STRIDE"), 10, 64)
	if stride <= 0 {
		stride = 1
	}
	count, _ := strconv.Atoi(os.Getenv("KSIM_COUNT"))
	budget, _ := strconv.ParseFloat(os.Getenv("KSIM_BUDGET_S"), 64)
	prop := os.Getenv("KSIM_PROPERTY")
	f, err := os.Create(out)
	if err != nil {
		t.Fatal(err)
	}
	defer f.Close()
	w := bufio.NewWriter(f)
	defer w.Flush()
	enc := json.NewEncoder(w)
	start := time.Now()
	for i := 0; count <= 0 || i < count; i++ {
		if budget > 0 && time.Since(start).Seconds() > budget {
			break
		}
		seed := seed0 + int64(i)*stride
		res := RunOne(t, NewTape(seed), seed, RunOpts{Property: prop})
		line := map[string]interface{}{"seed": seed, "family": res.Scenario.Family, "steps": res.Steps, "sim_s": res.SimSeconds, "end": res.EndReason,
			"writes": res.Writes, "calls": res.Calls, "stats": res.Stats, "probes": res.Probes, "violations": res.Violations,
			"trace_hash": res.TraceHash, "log_hash": res.LogHash, "final": res.Final, "nchoices": len(res.Choices)}
		if len(res.Violations) > 0 || i < 3 {
			line["scenario"] = res.Scenario
			line["trace"] = res.Trace
		}
		if len(res.Violations) > 0 {
			line["choices"] = res.Choices
		}
		_ = enc.Encode(line)
		w.Flush()
	}
}
