package ksim

import (
	"bufio"
	"encoding/json"
	"fmt"
	"os"
	"strconv"
	"testing"
	"time"
)

// TestWorker is the entry point used by the check driver: it runs seeds
// KSIM_SEED0, KSIM_SEED0+KSIM_STRIDE, ... until KSIM_COUNT runs or KSIM_BUDGET_S seconds are used,
// and streams one JSON line per run to KSIM_OUT.
func TestWorker(t *testing.T) {
	out := os.Getenv("KSIM_OUT")
	if out == "" {
		t.Skip("KSIM_OUT not set")
	}
	seed0, _ := strconv.ParseInt(os.Getenv("KSIM_SEED0"), 10, 64)
	stride, _ := strconv.ParseInt(os.Getenv("KSIM_STRIDE"), 10, 64)
	if stride == 0 {
		stride = 1 // negative strides walk the seeds backwards (selftest: different neighbours, same results)
	}
	count, _ := strconv.Atoi(os.Getenv("KSIM_COUNT"))
	budget, _ := strconv.ParseFloat(os.Getenv("KSIM_BUDGET_S"), 64)
	prop := os.Getenv("KSIM_PROPERTY")
	if os.Getenv("KSIM_ENUM") != "" {
		enumWorker(t, prop, seed0, stride, count, budget, out)
		return
	}
	f, err := os.Create(out)
	if err != nil {
		t.Fatal(err)
	}
	defer f.Close()
	w := bufio.NewWriter(f)
	defer w.Flush()
	enc := json.NewEncoder(w)
	start := time.Now()
	for i := 0; count <= 0 || i < count; i++ {
		if budget > 0 && time.Since(start).Seconds() > budget {
			break
		}
		seed := seed0 + int64(i)*stride
		res := RunOne(t, NewTape(seed), seed, RunOpts{Property: prop})
		if prop == "C19" {
			isolationCheck(t, res, seed)
		}
		line := map[string]interface{}{"seed": seed, "family": res.Scenario.Family, "steps": res.Steps, "sim_s": res.SimSeconds, "end": res.EndReason,
			"writes": res.Writes, "calls": res.Calls, "stats": res.Stats, "probes": res.Probes, "violations": res.Violations, "harness_error": res.HarnessErr,
			"trace_hash": res.TraceHash, "log_hash": res.LogHash, "final": res.Final, "nchoices": len(res.Choices)}
		if len(res.Violations) > 0 || i < 3 {
			line["scenario"] = res.Scenario
			line["trace"] = res.Trace
		}
		if len(res.Violations) > 0 {
			line["choices"] = res.Choices
		}
		_ = enc.Encode(line)
		w.Flush()
	}
}

// enumWorker: systematic fault placement (C06, C18).  For each baseline seed a fault-free run is
// recorded (number of fault-eligible calls N, terminal digest); the same tape is then re-executed
// with one fault forced at every call index j (stride for long baselines) and every fault kind.
// Oracles: all safety oracles of the run, liveness after the fault, and equality of the terminal
// abstract state with the baseline.
func enumWorker(t *testing.T, prop string, seed0, stride int64, count int, budget float64, out string) {
	f, err := os.Create(out)
	if err != nil {
		t.Fatal(err)
	}
	defer f.Close()
	w := bufio.NewWriter(f)
	defer w.Flush()
	enc := json.NewEncoder(w)
	start := time.Now()
	kinds := []string{"crash-after", "crash-before", "err-before", "err-after", "conflict"}
	quiet := enumQuiet(prop)
	for i := 0; count <= 0 || i < count; i++ {
		if budget > 0 && time.Since(start).Seconds() > budget {
			break
		}
		seed := seed0 + int64(i)*stride
		base := RunOne(t, NewTape(seed), seed, RunOpts{Property: prop, Mutate: quiet})
		emit := func(res *RunResult, forced map[int]string) {
			line := map[string]interface{}{"seed": seed, "family": res.Scenario.Family, "steps": res.Steps, "sim_s": res.SimSeconds, "end": res.EndReason,
				"writes": res.Writes, "calls": res.Calls, "stats": res.Stats, "probes": res.Probes, "violations": res.Violations, "harness_error": res.HarnessErr,
				"trace_hash": res.TraceHash, "log_hash": res.LogHash, "final": res.Final, "nchoices": len(res.Choices), "forced": forced, "enum": true}
			if len(res.Violations) > 0 {
				line["scenario"] = res.Scenario
				line["trace"] = res.Trace
				line["choices"] = res.Choices
			}
			_ = enc.Encode(line)
			w.Flush()
		}
		base.Probes["enum.baselines"] = 1
		emit(base, nil)
		if len(base.Violations) > 0 || base.EndReason != "quiescent" {
			continue
		}
		n := base.Calls
		step := 1
		if n > 60 {
			step = n / 60
		}
		for j := int(seed) % step; j < n; j += step {
			if budget > 0 && time.Since(start).Seconds() > budget {
				break
			}
			kind := kinds[(j+int(seed))%len(kinds)]
			forced := map[int]string{j: kind}
			res := RunOne(t, ReplayTape(base.Choices), seed, RunOpts{Property: prop, Mutate: quiet, Forced: forced})
			res.Probes["enum.positions"] = 1
			if prop == "C06" && res.Digest != base.Digest && res.EndReason == "quiescent" {
				res.Violations = append(res.Violations, Violation{Property: "C06", Oracle: "D1-final-state", Sig: "D1/" + res.Scenario.Family + "/" + kind + "|ev=",
					Seq: uint64(j), Detail: fmt.Sprintf("after %s at call %d the run ends in a different cluster state than the undisturbed run:\n  faulty : %s\n  clean  : %s", kind, j, res.Digest, base.Digest)})
			}
			emit(res, forced)
		}
	}
}

// enumQuiet: baseline configuration of systematic fault placement: no random faults, no disturbances
// other than the deletion C18 asks for.
func enumQuiet(prop string) func(sc *Scenario, cfg *Config) {
	return func(sc *Scenario, cfg *Config) {
		cfg.ErrBefore, cfg.ErrAfter, cfg.Conflict, cfg.CrashAtCall, cfg.EventDup, cfg.ClockJump, cfg.PodFlap, cfg.PodKill, cfg.FaultsStopAt = 0, 0, 0, 0, 0, 0, 0, 0, 0
		keep := sc.Events[:0]
		for _, e := range sc.Events {
			if prop == "C18" && e.Kind == "delete-rollout" {
				keep = append(keep, e)
			}
		}
		sc.Events = keep
	}
}

// isolationCheck (C19): every rollout of the concurrent run must end in the same abstract state as when it runs alone.
func isolationCheck(t *testing.T, res *RunResult, seed int64) {
	if res.EndReason != "quiescent" || res.NScenarios < 2 {
		return
	}
	for i := 1; i <= res.NScenarios; i++ {
		// the solo run reads the recorded choices of the concurrent run: the scenarios are drawn from the same prefix
		// (also after shrinking, which edits the recorded tape), the schedule after that is whatever the rest yields
		solo := RunOne(t, ReplayTape(res.Choices), seed, RunOpts{Property: "C19", Only: i})
		res.Probes["c19.solo-runs"]++
		if solo.EndReason != "quiescent" {
			continue
		}
		for k, d := range solo.Digests {
			if cd, ok := res.Digests[k]; ok && cd != d {
				res.Violations = append(res.Violations, Violation{Property: "C19", Oracle: "I1-solo-equivalence", Sig: "I1/" + solo.Scenario.Family + "|ev=", Seq: 0,
					Detail: fmt.Sprintf("rollout %s ends differently when other rollouts run in the same process:\n  concurrent: %s\n  solo      : %s", k, cd, d)})
			}
		}
	}
}
