#!/bin/bash
# usage: sweep.sh <property-profile> <seed0> <count-per-worker>  -> summary of all violations by signature
P=${1:-C01}; S=${2:-1}; N=${3:-50}
export GOFLAGS=-mod=mod GOPROXY=off GOSUMDB=off GOTOOLCHAIN=local
cd /verif/sim && go1.26.8 test -tags verif -c -o /verif/bin/ksim.test . || exit 2
mkdir -p /verif/work/sweep && rm -f /verif/work/sweep/*
cd /repo
for i in $(seq 0 15); do GOMAXPROCS=2 KSIM_TIER=${TIER:-quick} KSIM_PROPERTY=$P KSIM_OUT=/verif/work/sweep/w_$i.jsonl KSIM_SEED0=$((S+i)) KSIM_STRIDE=16 KSIM_COUNT=$N /verif/bin/ksim.test -test.run '^TestWorker$' -test.timeout 2h >/verif/work/sweep/w_$i.log 2>&1 & done; wait
cat /verif/work/sweep/w_*.jsonl | jq -c 'select(.violations!=null) | .seed as $s | .violations[] | [.property,.signature]' | sort | uniq -c | sort -rn | head -40
echo "runs: $(cat /verif/work/sweep/w_*.jsonl | wc -l)  ends: $(cat /verif/work/sweep/w_*.jsonl | jq -r .end | sort | uniq -c | tr '\n' ' ')"
grep -l "panic\|FAIL" /verif/work/sweep/w_*.log 2>/dev/null | head -3
